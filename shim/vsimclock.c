/* Simulated wall clock for the typelib simulator.
 * Interposes the libc entry points CPython and pendulum use to read the
 * realtime clock.  Off by default: until vsim_set() is called with
 * enabled=1 every call is forwarded to the real implementation. */
#define _GNU_SOURCE
#include <dlfcn.h>
#include <stdint.h>
#include <stddef.h>
#include <sys/time.h>
#include <time.h>

static volatile int vsim_enabled = 0;
static volatile int64_t vsim_sec = 0;
static volatile int64_t vsim_nsec = 0;
static volatile uint64_t vsim_reads = 0;

void vsim_set(int64_t sec, int64_t nsec, int enabled) {
    vsim_sec = sec; vsim_nsec = nsec; vsim_enabled = enabled;
}
uint64_t vsim_read_count(void) { return vsim_reads; }
int vsim_present(void) { return 1; }

typedef int (*cg_t)(clockid_t, struct timespec *);
typedef int (*gtod_t)(struct timeval *, void *);
typedef time_t (*time_fn_t)(time_t *);

int clock_gettime(clockid_t clk, struct timespec *ts) {
    static cg_t real = NULL;
    if (vsim_enabled && (clk == CLOCK_REALTIME || clk == CLOCK_REALTIME_COARSE
#ifdef CLOCK_TAI
        || clk == CLOCK_TAI
#endif
        )) {
        vsim_reads++;
        if (ts) { ts->tv_sec = (time_t)vsim_sec; ts->tv_nsec = (long)vsim_nsec; }
        return 0;
    }
    if (!real) real = (cg_t)dlsym(RTLD_NEXT, "clock_gettime");
    return real(clk, ts);
}

int gettimeofday(struct timeval *tv, void *tz) {
    static gtod_t real = NULL;
    if (vsim_enabled) {
        vsim_reads++;
        if (tv) { tv->tv_sec = (time_t)vsim_sec; tv->tv_usec = (suseconds_t)(vsim_nsec / 1000); }
        return 0;
    }
    if (!real) real = (gtod_t)dlsym(RTLD_NEXT, "gettimeofday");
    return real(tv, tz);
}

time_t time(time_t *out) {
    static time_fn_t real = NULL;
    if (vsim_enabled) {
        vsim_reads++;
        if (out) *out = (time_t)vsim_sec;
        return (time_t)vsim_sec;
    }
    if (!real) real = (time_fn_t)dlsym(RTLD_NEXT, "time");
    return real(out);
}
