# Builds the only native piece of the simulator: the clock seam.
CC ?= cc
BUILD := build

.PHONY: build clean
build: $(BUILD)/libvsimclock.so

$(BUILD)/libvsimclock.so: shim/vsimclock.c
	mkdir -p $(BUILD)
	$(CC) -O2 -fPIC -shared -o $@ $< -ldl

clean:
	rm -rf $(BUILD)
