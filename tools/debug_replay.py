#!/venv/bin/python -B
"""Run a replay file (or history JSON) inline in this interpreter and dump the result."""
import json, os, sys
sys.path.insert(0, "/verif"); sys.path.insert(0, os.environ.get("TLSIM_REPO_SRC", "/repo/src"))
from tlsim import worker
doc = json.load(open(sys.argv[1]))
h = doc.get("history", doc)
res = worker.replay_inline({"id": 0, "mode": "exec", "prop": doc.get("property") or h["prop"], "history": h})
res.pop("history", None)
for k in ("nontrivial", "state_sigs", "bigrams", "step_canons", "cmp_mask"):
    res.pop(k, None)
print(json.dumps(res, indent=1)[:6000])
