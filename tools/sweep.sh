#!/bin/bash
# usage: tools/sweep.sh "<ID> [<ID>...]" <first_seed> <count> [extra check args]
# Runs each quick check under <count> different VERIF_SEED values; prints one line per run that is not clean.
ids="$1"; first="$2"; count="$3"; shift 3
cd "$(dirname "$0")/.."
make -s build >/dev/null 2>&1
export TLSIM_EVIDENCE_DIR=$(mktemp -d /var/tmp/sweep-ev-XXXXXX) TLSIM_REPLAY_DIR=${TLSIM_REPLAY_DIR:-$(pwd)/sweep-replays}
bad=0
for id in $ids; do
  for ((s=first; s<first+count; s++)); do
    out=$(VERIF_SEED=$s ./check "$id" "$@" 2>&1); rc=$?
    if [ $rc -ne 0 ]; then bad=$((bad+1)); echo "SEED=$s $id rc=$rc"; echo "$out" | grep -v "^KNOWN-FINDING" | head -12; fi
  done
  echo "swept $id seeds $first..$((first+count-1))"
done
rm -rf "$TLSIM_EVIDENCE_DIR"
echo "sweep done: $bad non-clean runs"
