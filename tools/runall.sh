#!/bin/bash
# usage: tools/runall.sh [tier] ; honours VERIF_SEED. Prints the summary line of every check.
tier=${1:-quick}
cd "$(dirname "$0")/.."
rc_all=0
for id in $(python3 -c "import json;print(' '.join(c['property_id'] for c in json.load(open('MANIFEST.json'))['checks']))"); do
  out=$(./check $id --tier $tier 2>&1); rc=$?
  echo "$out" | grep -v "^KNOWN-FINDING" | tail -n 1
  if [ $rc -ne 0 ]; then rc_all=1; echo "$out" | grep -v "^KNOWN-FINDING" | head -8 | cut -c1-400; fi
done
exit $rc_all
