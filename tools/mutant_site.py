#!/usr/bin/env python3
"""Run chosen quick checks against one mutant of tools/mutation_sweep.py.
usage: tools/mutant_site.py <file relative to src/typelib> <site index> <ID> [<ID>...]"""
import os, shutil, subprocess, sys, tempfile
sys.path.insert(0, os.path.dirname(os.path.abspath(__file__)))
import mutation_sweep as ms

rel, idx, checks = sys.argv[1], int(sys.argv[2]), sys.argv[3:]
code, kind, line, before, after = ms.make_mutant(os.path.join(ms.SRC, rel), idx)
tmp = tempfile.mkdtemp(prefix="mutsite-", dir="/var/tmp")
try:
    shutil.copytree("/repo/src", os.path.join(tmp, "src"), ignore=shutil.ignore_patterns("__pycache__"))
    open(os.path.join(tmp, "src", "typelib", rel), "w").write(code)
    print(f"{rel}:{line} {kind}: {before[:100]!r} => {after[:100]!r}")
    for c in checks:
        env = dict(os.environ, TLSIM_REPO_SRC=os.path.join(tmp, "src"), TLSIM_EVIDENCE_DIR=os.path.join(tmp, "ev"), TLSIM_REPLAY_DIR=os.path.join(tmp, "rp"))
        q = subprocess.run([os.path.join(ms.VERIF, "check"), c], env=env, cwd=ms.VERIF, capture_output=True, text=True)
        sig = [ln.strip()[:220] for ln in q.stdout.splitlines() if ln.strip().startswith("oracle=")][:2]
        print(" ", c, "rc=%d" % q.returncode, sig)
finally:
    shutil.rmtree(tmp, ignore_errors=True)
