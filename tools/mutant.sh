#!/bin/bash
# usage: tools/mutant.sh <patch.diff | -e 'sed-expr' file> -- <check args...>
# Runs a check against a scratch copy of /repo/src with a change applied; never touches /repo.
set -u
D=$(mktemp -d /var/tmp/tlsim-mut-XXXXXX)
trap 'rm -rf "$D"' EXIT
cp -r /repo/src "$D/src"
find "$D" -name __pycache__ -prune -exec rm -rf {} + 2>/dev/null
if [ "$1" = "-e" ]; then
  sed -i -E "$2" "$D/src/typelib/$3" || exit 9
  shift 3
else
  (cd "$D" && patch -s -p1 < "$1") || exit 9
  shift 1
fi
[ "$1" = "--" ] && shift
if diff -rq /repo/src "$D/src" -x __pycache__ >/dev/null; then echo "mutant: no change applied"; exit 9; fi
cd /verif
TLSIM_REPO_SRC="$D/src" TLSIM_EVIDENCE_DIR="$D/evidence" TLSIM_REPLAY_DIR="$D/replays" ./check "$@"
rc=$?
echo "mutant rc=$rc"
exit $rc
