#!/usr/bin/env python3
"""Write the briefs for the independent sub-agents that produce seeded changes.

usage: tools/gen_agent_prompts.py <round-tag> <out-dir>      (worktrees are expected at /tmp/<round-tag>-<ID>)

Each brief contains the property text from properties.jsonl, the one-line descriptions of the
mechanisms already tried for that property (seeded/tried.json) and the working rules - nothing
else from /verif.
"""
import json, os, sys

tag, out = sys.argv[1], sys.argv[2]
V = os.path.dirname(os.path.dirname(os.path.abspath(__file__)))
props = {json.loads(l)["id"]: json.loads(l) for l in open(os.path.join(V, "properties.jsonl"))}
tried = json.load(open(os.path.join(V, "seeded", "tried.json")))
os.makedirs(out, exist_ok=True)
for pid, p in props.items():
    if pid not in tried:
        continue
    wt = f"/tmp/{tag}-{pid}"
    already = "; ".join(f'({i + 1}) "{m}"' for i, m in enumerate(tried[pid]))
    txt = f"""You are helping to evaluate a verification effort for the open-source Python library seandstewart/python-typelib (runtime type inspection, marshalling/unmarshalling, JSON codecs). You work ONLY inside your own scratch git worktree of the repository at {wt} (library sources under {wt}/src/typelib, tests under {wt}/tests). Do not read or write anything under /repo or /verif, and do not look at other /tmp/{tag}-* directories.

The semantic property under study ({pid}: {p['title']}):

STATEMENT: {p['statement']}

QUANTIFIED OVER: {p['quantifier']['text']}

CODE ANCHORS: files {p['anchors']['files']}; mechanisms {json.dumps(p['anchors']['mechanism'])}

YOUR TASK: produce ONE realistic change (a "seeded defect") to the library sources that BREAKS this property while the code still imports and the existing test suite still passes unchanged. It should look like something a maintainer could plausibly commit (an optimisation, a refactor, a 'simplification', a robustness tweak, a reordered condition), not sabotage that ordinary use would expose at once. It MUST need something SPECIFIC to manifest. Pick a DIFFERENT mechanism, in a different function if you can, from the ones already tried for this property, which were: {already}. Good directions (pick whichever fits this property best, and prefer one the earlier attempts did not use):
  - ENVIRONMENT: behaviour that is only wrong in a process time zone other than UTC, on particular dates or around midnight / DST changes / year ends / leap days, depending on the current wall-clock time (e.g. "today" captured once and kept), under a particular PYTHONHASHSEED (set or dict-of-sets iteration order), at a particular call-stack depth or recursion limit, or when called from a second module;
  - FAULT AT A POINT: wrong only after an exception was raised mid-operation (a constructor, user __init__/__iter__/__getitem__ or encoder that fails once, a RecursionError, an exhausted or failing iterator), after a cache was cleared or evicted (the bounded LRU caches in serdes hold 100 000 entries - think about what happens on eviction or with maxsize small), or when the caller re-uses a buffer / mutates what it was given or got back;
  - HISTORY: wrong only for the second, differently-ordered or differently-spelled use (build order of two types, first-use order of two classes with one name, value seen earlier that compares equal but is represented differently, a routine object that keeps per-call state);
  - TWO COOPERATING SITES that each look fine alone;
  - an unusual-but-valid INPUT CLASS of the property's domain that the unit tests do not contain (boundary values, deep nesting, subclass instances, empty containers, non-str dict keys, negative durations, offsets with seconds, very large ints, nested optional-of-union, classes with slots/properties/inheritance...).

RULES
- Edit only files under {wt}/src/typelib. Keep the change small (a few lines to ~30 lines).
- NEVER use `git stash` (the stash is shared between worktrees and other agents work in parallel). To compare with the original use:  cd {wt} && git diff -- src > {wt}/MUTANT/patch.diff && git apply -R MUTANT/patch.diff  ...run...  && git apply MUTANT/patch.diff
- The existing suite must give the same result as on the original. NOTE: on the ORIGINAL code exactly one test already fails in this environment (tests/unit/py/test_inspection.py::test_origin[type_alias_type]); that is expected - so do NOT use -x. Run:  cd {wt} && PYTHONPATH={wt}/src /venv/bin/python -m pytest -q -p no:cacheprovider   (about 5 s) and require '1 failed, 1433 passed, 2 skipped' with the same single failure. Check first that python really imports your copy:  cd {wt} && PYTHONPATH={wt}/src /venv/bin/python -c "import typelib; print(typelib.__file__)"  must print a path under {wt}.
- Write a demonstration {wt}/MUTANT/demo.py: a small stand-alone script (run as  cd {wt} && PYTHONPATH={wt}/src /venv/bin/python MUTANT/demo.py ) that exits 0 on the ORIGINAL code and exits 1 (printing what went wrong) WITH your change. If the defect depends on the environment, the demo must set that environment itself (os.environ['TZ']=...; time.tzset(); or re-exec itself with PYTHONHASHSEED) so that it is self-contained. Verify both outcomes.
- Save the change as {wt}/MUTANT/patch.diff (output of  cd {wt} && git diff -- src ), and leave the change applied in the worktree.
- Write {wt}/MUTANT/NOTE.md: 5-10 lines: what the change is, why it looks innocent, exactly what is needed for it to manifest (history / fault / environment / input), and which clause of the property it breaks.
- ADDITIONAL CONSTRAINT: every name the demonstration's types refer to (classes, aliases, NewTypes) must be defined before the library first sees a type that mentions it. A mechanism that only shows after a NameError / an unresolved forward reference on a first, premature use ("use before definition") is out of scope - the properties quantify over resolvable types.
- Python to use: /venv/bin/python (3.12). No network. Do not install anything.

Finish by reporting: the diff, the demo's output on original vs changed code, and the pytest summary line."""
    open(os.path.join(out, f"{pid}.txt"), "w").write(txt)
print(len(os.listdir(out)), "briefs written to", out)
