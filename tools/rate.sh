#!/bin/bash
# Detection of one seeded change by its target check under the given seeds (scratch copy of /repo/src under /var/tmp, removed afterwards).
# usage: rate.sh <seeded-name> <prop> <seeds...>
name=$1; prop=$2; shift 2
tmp=$(mktemp -d /var/tmp/rate-XXXXXX); cp -r /repo/src $tmp/src; (cd $tmp && patch -s -p1 -i /verif/seeded/$name/patch.diff) || exit 3
for s in "$@"; do
  out=$(cd /verif && TLSIM_REPO_SRC=$tmp/src TLSIM_EVIDENCE_DIR=$tmp/ev TLSIM_REPLAY_DIR=$tmp/rp VERIF_SEED=$s ./check $prop 2>&1 | tail -1)
  echo "$name seed=$s $(echo $out | grep -o 'violations=[0-9]* known=[0-9]*.*rc=[0-9]')"
done
rm -rf $tmp
