#!/usr/bin/env python3
"""Systematic sensitivity sweep: small syntactic mutants of the library, filtered by the pinned
test suite, then run against the checks that watch the mutated file.

usage: tools/mutation_sweep.py [--seed N] [--per-file K] [--files a.py,b.py] [--out results.json] [--jobs J]

For every sampled mutant (one AST node changed in one file of /repo/src/typelib):
  1. a scratch copy of /repo (src + tests + config; outside /repo and /verif, removed afterwards) gets the mutant;
  2. the pinned suite runs there; a mutant the suite kills is dropped (the tests already settle it);
  3. a survivor is run against the quick checks mapped to its file (first check to report a violation wins).
Survivors that no check catches are listed for triage: each is either equivalent (the common case for
mutants of defensive code) or a blind spot.  Nothing here is part of a registered check's verdict.
"""
import ast
import concurrent.futures as cf
import copy
import json
import os
import random
import shutil
import subprocess
import sys
import tempfile

VERIF = os.path.dirname(os.path.dirname(os.path.abspath(__file__)))
SRC = "/repo/src/typelib"
# which checks watch which file (first = most specific)
WATCH = {
    "serdes.py": ["C04", "C14", "C18", "C12", "C06", "C01"],
    "ctx.py": ["C16", "C11", "C15"],
    "graph.py": ["C09", "C07", "C11", "C15", "C01"],
    "codecs.py": ["C02", "C12"],
    "api.py": ["C02", "C12"],
    "py/classes.py": ["C19"],
    "py/inspection.py": ["C17", "C15", "C11", "C18", "C01"],
    "py/refs.py": ["C11", "C09", "C16"],
    "py/frames.py": ["C11", "C09"],
    "marshals/api.py": ["C07", "C06", "C15", "C12", "C11"],
    "marshals/routines.py": ["C06", "C01", "C08", "C12"],
    "unmarshals/api.py": ["C07", "C03", "C15", "C12", "C11"],
    "unmarshals/routines.py": ["C03", "C04", "C08", "C01", "C14"],
}
CMP = {ast.Eq: ast.NotEq, ast.NotEq: ast.Eq, ast.Lt: ast.LtE, ast.LtE: ast.Lt, ast.Gt: ast.GtE, ast.GtE: ast.Gt,
       ast.Is: ast.IsNot, ast.IsNot: ast.Is, ast.In: ast.NotIn, ast.NotIn: ast.In}


def sites(tree):
    """Enumerate (kind, node path) mutation sites."""
    out = []
    for node in ast.walk(tree):
        if isinstance(node, ast.Compare) and len(node.ops) == 1 and type(node.ops[0]) in CMP:
            out.append(("cmp", node))
        elif isinstance(node, ast.BoolOp):
            out.append(("boolop", node))
        elif isinstance(node, ast.UnaryOp) and isinstance(node.op, ast.Not):
            out.append(("not", node))
        elif isinstance(node, ast.Constant) and isinstance(node.value, bool):
            out.append(("bool", node))
        elif isinstance(node, ast.Constant) and isinstance(node.value, int) and not isinstance(node.value, bool) and abs(node.value) < 10**7:
            out.append(("int", node))
        elif isinstance(node, ast.Call) and node.keywords:
            for i, _ in enumerate(node.keywords):
                out.append((f"dropkw{i}", node))
        elif isinstance(node, ast.Return) and node.value is not None and not (isinstance(node.value, ast.Constant) and node.value.value is None):
            out.append(("retnone", node))
        elif isinstance(node, (ast.If,)) and node.orelse == []:
            out.append(("ifnever", node))
            out.append(("ifalways", node))
        elif isinstance(node, ast.Try) and node.finalbody:
            out.append(("nofinally", node))
        elif isinstance(node, ast.ExceptHandler) and node.type is not None:
            out.append(("exceptall", node))
        if isinstance(node, (ast.FunctionDef, ast.If, ast.For, ast.While, ast.With, ast.Try, ast.ExceptHandler)):
            body = node.body
            for i, st in enumerate(body):
                if isinstance(st, ast.Expr) and isinstance(st.value, ast.Constant) and isinstance(st.value.value, str):
                    continue  # docstring
                if isinstance(st, (ast.Assign, ast.AugAssign, ast.Expr, ast.Continue, ast.Raise)) and len(body) > 1:
                    out.append((f"delstmt{i}", node))
    return out


def apply(kind, node):
    if kind == "cmp":
        node.ops = [CMP[type(node.ops[0])]()]
    elif kind == "boolop":
        node.op = ast.Or() if isinstance(node.op, ast.And) else ast.And()
    elif kind == "not":
        # `not x` -> `not not x` (the truth value of x): the negation is gone
        node.operand = ast.UnaryOp(op=ast.Not(), operand=node.operand)
    elif kind == "bool":
        node.value = not node.value
    elif kind == "int":
        node.value = node.value + 1
    elif kind.startswith("dropkw"):
        del node.keywords[int(kind[6:])]
    elif kind == "retnone":
        node.value = ast.Constant(value=None)
    elif kind == "ifnever":
        node.test = ast.Constant(value=False)
    elif kind == "ifalways":
        node.test = ast.Constant(value=True)
    elif kind == "nofinally":
        node.body = node.body + node.finalbody
        node.finalbody = []
        if not node.handlers:
            node.handlers = [ast.ExceptHandler(type=None, name=None, body=[ast.Raise()])]
    elif kind == "exceptall":
        node.type = ast.Name(id="Exception", ctx=ast.Load())
    elif kind.startswith("delstmt"):
        node.body[int(kind[7:])] = ast.Pass()


def make_mutant(path, index):
    src = open(path).read()
    tree = ast.parse(src)
    ss = sites(tree)
    kind, node = ss[index]
    before = ast.unparse(node)[:160]
    apply(kind, node)
    ast.fix_missing_locations(tree)
    after = ast.unparse(node)[:160]
    return ast.unparse(tree), kind, getattr(node, "lineno", 0), before, after


def run_one(job):
    rel, index, checks, seed = job
    tmp = tempfile.mkdtemp(prefix="mutsweep-", dir="/var/tmp")
    res = {"file": rel, "site": index}
    try:
        try:
            code, kind, line, before, after = make_mutant(os.path.join(SRC, rel), index)
            compile(code, rel, "exec")
        except Exception as e:  # noqa: BLE001
            res["status"] = f"invalid: {type(e).__name__}"
            return res
        res.update(kind=kind, line=line, before=before, after=after)
        if before == after:
            res["status"] = "no-op"
            return res
        subprocess.run(f"git -C /repo archive HEAD | tar -x -C {tmp}", shell=True, check=True)
        with open(os.path.join(tmp, "src", "typelib", rel), "w") as f:
            f.write(code)
        env = dict(os.environ, PYTHONPATH=os.path.join(tmp, "src"), PYTHONDONTWRITEBYTECODE="1")
        p = subprocess.run(["/venv/bin/python", "-m", "pytest", "-q", "-x", "-p", "no:cacheprovider", "--timeout=120",
                            "--deselect", "tests/unit/py/test_inspection.py::test_origin[type_alias_type]"],
                           cwd=tmp, env=env, capture_output=True, text=True, timeout=900)
        if p.returncode != 0:
            res["status"] = "killed-by-suite"
            return res
        res["status"] = "survived-suite"
        caught = None
        for c in checks:
            ev = os.path.join(tmp, "ev")
            e2 = dict(os.environ, TLSIM_REPO_SRC=os.path.join(tmp, "src"), VERIF_SEED=str(seed), TLSIM_EVIDENCE_DIR=ev,
                      TLSIM_REPLAY_DIR=os.path.join(tmp, "rp"))
            q = subprocess.run([os.path.join(VERIF, "check"), c, "--tier", "quick", "--jobs", "4"], env=e2, cwd=VERIF, capture_output=True, text=True, timeout=1800)
            if q.returncode == 1:
                sig = [ln.strip()[:200] for ln in q.stdout.splitlines() if ln.strip().startswith("oracle=")][:1]
                caught = {"check": c, "sig": sig}
                break
            if q.returncode == 2:
                caught = {"check": c, "sig": ["harness error / timeout (counts as noticed)"]}
                break
        res["caught"] = caught
        res["status"] = "caught" if caught else "uncaught"
        return res
    except subprocess.TimeoutExpired:
        res["status"] = "timeout"
        return res
    finally:
        shutil.rmtree(tmp, ignore_errors=True)


def main(argv):
    def opt(name, default):
        return argv[argv.index(name) + 1] if name in argv else default

    seed = int(opt("--seed", "1"))
    per_file = int(opt("--per-file", "12"))
    files = opt("--files", "")
    out = opt("--out", os.path.join(VERIF, "seeded", "mutation_sweep.json"))
    jobs = int(opt("--jobs", "4"))
    rng = random.Random(seed)
    subprocess.run(["make", "-s", "-C", VERIF, "build"], check=False, capture_output=True)
    todo = []
    for rel, checks in WATCH.items():
        if files and rel not in files.split(","):
            continue
        tree = ast.parse(open(os.path.join(SRC, rel)).read())
        n = len(sites(tree))
        for idx in rng.sample(range(n), min(per_file, n)):
            todo.append((rel, idx, checks, 20261004 + seed))
    results = json.load(open(out)) if os.path.exists(out) else []
    done = {(r["file"], r["site"]) for r in results}
    todo = [t for t in todo if (t[0], t[1]) not in done]
    print(f"{len(todo)} mutants to run", flush=True)
    with cf.ProcessPoolExecutor(max_workers=jobs) as ex:
        for r in ex.map(run_one, todo):
            results.append(r)
            print(r.get("status"), r["file"], r.get("line"), r.get("kind"), (r.get("caught") or {}).get("check", ""), "|", r.get("before", "")[:70], "=>", r.get("after", "")[:70], flush=True)
            with open(out, "w") as f:
                json.dump(results, f, indent=1)
    tally = {}
    for r in results:
        tally[r["status"]] = tally.get(r["status"], 0) + 1
    print("tally:", tally)


if __name__ == "__main__":
    main(sys.argv[1:])
