"""Re-make a seeded patch against the current /repo HEAD after a repair touched the same lines.

usage (from python): from rebase_helper import rebase; rebase(name, {path: [(old, new), ...]}, note)
The edits are applied to a scratch export of HEAD (under /var/tmp, removed afterwards); the demonstration must still pass without and fail with the change."""
import json, os, subprocess, sys, tempfile, shutil
def rebase(name, edits, note):
    tmp = tempfile.mkdtemp(prefix="rb-", dir="/var/tmp")
    try:
        subprocess.run(f"git -C /repo archive HEAD | tar -x -C {tmp}", shell=True, check=True)
        subprocess.run("git init -q . && git add -A >/dev/null && git -c user.email=a@b -c user.name=x commit -qm base >/dev/null", shell=True, cwd=tmp, check=True)
        for path, pairs in edits.items():
            p = os.path.join(tmp, path); s = open(p).read()
            for old, new in pairs:
                assert old in s, (name, path, old[:60])
                s = s.replace(old, new, 1)
            open(p, "w").write(s)
        diff = subprocess.check_output("git diff -- src", shell=True, cwd=tmp, text=True)
        d = f"/verif/seeded/{name}"
        open(f"{d}/patch.diff", "w").write(diff)
        shutil.copy(f"{d}/demo.py", f"{tmp}/demo_x.py")
        env = dict(os.environ, PYTHONPATH=f"{tmp}/src")
        rc1 = subprocess.run(["/venv/bin/python", "demo_x.py"], cwd=tmp, env=env, capture_output=True).returncode
        subprocess.run("git stash -q", shell=True, cwd=tmp)
        rc0 = subprocess.run(["/venv/bin/python", "demo_x.py"], cwd=tmp, env=env, capture_output=True).returncode
        m = json.load(open(f"{d}/meta.json"))
        m["base_commit"] = subprocess.check_output(["git", "-C", "/repo", "log", "--format=%h", "-1"], text=True).strip()
        m["rebased"] = note
        json.dump(m, open(f"{d}/meta.json", "w"), indent=1)
        print(name, "demo on repaired tree:", rc0, "with change:", rc1)
    finally:
        shutil.rmtree(tmp, ignore_errors=True)

