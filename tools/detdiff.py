#!/venv/bin/python -B
"""Run one seed of a property in fresh interpreters under two hash seeds; show the first diverging step."""
import json, os, subprocess, sys
sys.path.insert(0, "/verif")
from tlsim import orchestrator
prop, seed = sys.argv[1], int(sys.argv[2])
tier = sys.argv[3] if len(sys.argv) > 3 else "quick"
job = {"id": 0, "mode": "gen-run", "prop": prop, "seed": seed, "tier": tier, "replica": 0, "want_history": True}
a = orchestrator.run_inline(job, "0")
b = orchestrator.run_inline(job, "12345")
print(a.get("harness_error"), b.get("harness_error"))
print(a["digest"], b["digest"])
for i, (x, y) in enumerate(zip(a["step_canons"], b["step_canons"])):
    if x != y:
        print("first diverging step", i, json.dumps(a["history"]["steps"][i])[:1500])
        break
