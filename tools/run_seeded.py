#!/usr/bin/env python3
"""Run the registered quick checks against every confirmed seeded change under /verif/seeded/<id>/.

For each change the patch is applied to a scratch copy of /repo/src (outside /repo and /verif,
removed afterwards), the target property's check is run (all checks with --all), and the
outcome is recorded in /verif/seeded/INDEX.md and /verif/seeded/results.json.

usage: tools/run_seeded.py [--all] [--only <id>...] [--seeds N]
"""
import json
import os
import shutil
import subprocess
import sys
import tempfile

VERIF = os.path.dirname(os.path.dirname(os.path.abspath(__file__)))
SEEDED = os.path.join(VERIF, "seeded")


BUDGET = None
CHECK_JOBS = None  # --check-jobs N: worker processes per check (default: the check's own)
PAR = 1  # --par N: seeded changes measured side by side (rate mode)


def run_check(prop, src, seed, runs=None):
    env = dict(os.environ, TLSIM_REPO_SRC=src, VERIF_SEED=str(seed))
    d = tempfile.mkdtemp(prefix="seeded-ev-", dir="/var/tmp")
    env["TLSIM_EVIDENCE_DIR"] = d
    env["TLSIM_REPLAY_DIR"] = os.path.join(d, "replays")
    cmd = [os.path.join(VERIF, "check"), prop, "--tier", "quick"] + (["--runs", str(runs)] if runs else []) + (["--budget", str(BUDGET)] if BUDGET else []) + \
        (["--jobs", str(CHECK_JOBS)] if CHECK_JOBS else [])
    p = subprocess.run(cmd, env=env, capture_output=True, text=True, cwd=VERIF)
    sigs = []
    for ln in p.stdout.splitlines():
        if ln.strip().startswith("oracle="):
            parts = ln.strip().split(" ")
            sigs.append(" ".join(parts[:2]))
    shutil.rmtree(d, ignore_errors=True)
    return p.returncode, sigs, p.stdout.strip().splitlines()[-1] if p.stdout.strip() else ""


def rate_mode(only, n):
    """Detection rate: the target check under n different seeds per change (no early stop)."""
    path = os.path.join(SEEDED, "rates.json")
    rates = json.load(open(path)) if os.path.exists(path) else {}
    import concurrent.futures as cf
    import threading

    lock = threading.Lock()

    def one(name):
        d = os.path.join(SEEDED, name)
        meta = json.load(open(os.path.join(d, "meta.json")))
        tmp = tempfile.mkdtemp(prefix="seeded-src-", dir="/var/tmp")
        try:
            shutil.copytree("/repo/src", os.path.join(tmp, "src"), ignore=shutil.ignore_patterns("__pycache__"))
            ap = subprocess.run(["patch", "-s", "-p1", "-i", os.path.join(d, "patch.diff")], cwd=tmp, capture_output=True, text=True)
            if ap.returncode != 0:
                print(name, "PATCH FAILED", flush=True)
                return
            hits = []
            first_sigs = []
            for k in range(n):
                seed = 31337 + k * 104729
                rc, sigs, last = run_check(meta["property"], os.path.join(tmp, "src"), seed)
                hits.append(rc)
                if rc == 1 and not first_sigs:
                    first_sigs = sigs[:3]
            with lock:
                rates[name] = {"property": meta["property"], "seeds": n, "caught": sum(1 for r in hits if r == 1), "harness_errors": sum(1 for r in hits if r == 2),
                               "signatures": first_sigs, "needs": meta.get("needs")}
                if meta.get("not_expected_to_be_caught"):
                    rates[name]["outside_the_quantifier"] = True
                if meta.get("obsolete_on_current_tree"):
                    rates[name]["obsolete_on_current_tree"] = True
                print(name, f"{rates[name]['caught']}/{n}", flush=True)
                with open(path, "w") as f:
                    json.dump(rates, f, indent=1, sort_keys=True)
        finally:
            shutil.rmtree(tmp, ignore_errors=True)

    names = [nm for nm in sorted(os.listdir(SEEDED)) if os.path.isdir(os.path.join(SEEDED, nm)) and (not only or nm in only)]
    with cf.ThreadPoolExecutor(max_workers=PAR) as ex:
        list(ex.map(one, names))
    write_index_from_rates(rates)


def write_index_from_rates(rates):
    """seeded/INDEX.md: one row per kept change - target check, what it needs, how many of the seeds caught it."""
    lines = ["# Seeded changes and the checks that catch them", "",
             "Each change was produced by an independent sub-agent that saw only the property text and a scratch worktree, confirmed by hand",
             "(suite green with the change, demonstration fails with it and passes without), and is kept as `patch.diff` + demonstration + `meta.json`.",
             "The target property's quick check was run against each change under several seeds (`tools/run_seeded.py --rate N --par P`).", "",
             "| id | property | needs, in order to manifest | caught (seeds) | first signatures |", "|---|---|---|---|---|"]
    for name, r in sorted(rates.items()):
        if not os.path.isdir(os.path.join(SEEDED, name)):
            continue
        who = f"{r['caught']}/{r['seeds']}"
        if r.get("outside_the_quantifier"):
            who += " (not expected: outside the quantifier, see meta.json)"
        elif r.get("obsolete_on_current_tree"):
            who += " (no longer a defect on the repaired tree, see meta.json)"
        elif r["caught"] == 0:
            who = "**" + who + " missed**"
        lines.append(f"| {name} | {r['property']} | {str(r.get('needs'))[:200]} | {who} | {'; '.join(r.get('signatures') or [])[:240]} |")
    tot = [r for n_, r in rates.items() if os.path.isdir(os.path.join(SEEDED, n_)) and not r.get("outside_the_quantifier") and not r.get("obsolete_on_current_tree")]
    lines += ["", f"{len(tot)} changes within the quantifiers: {sum(1 for r in tot if r['caught'] == r['seeds'])} caught under every seed, "
              f"{sum(1 for r in tot if 0 < r['caught'] < r['seeds'])} under some, {sum(1 for r in tot if r['caught'] == 0)} under none."]
    with open(os.path.join(SEEDED, "INDEX.md"), "w") as f:
        f.write("\n".join(lines) + "\n")


def main(argv):
    global BUDGET, CHECK_JOBS, PAR
    for flag in ("--check-jobs", "--par"):
        if flag in argv:
            val = int(argv[argv.index(flag) + 1])
            argv = [a for i, a in enumerate(argv) if a != flag and (i == 0 or argv[i - 1] != flag)]
            if flag == "--par":
                PAR = val
            else:
                CHECK_JOBS = val
    if "--budget" in argv:
        BUDGET = int(argv[argv.index("--budget") + 1])
        argv = [a for i, a in enumerate(argv) if a != "--budget" and (i == 0 or argv[i - 1] != "--budget")]
    rate = int(argv[argv.index("--rate") + 1]) if "--rate" in argv else 0
    if rate:
        return rate_mode([a for a in argv if not a.startswith("--") and a != str(rate)], rate)
    all_checks = "--all" in argv
    only = [a for a in argv if not a.startswith("--")]
    nseeds = int(argv[argv.index("--seeds") + 1]) if "--seeds" in argv else 2
    if "--seeds" in argv:
        only = [a for a in only if a != str(nseeds)]
    manifest = json.load(open(os.path.join(VERIF, "MANIFEST.json")))
    props = [c["property_id"] for c in manifest["checks"]]
    results = {}
    for name in sorted(os.listdir(SEEDED)):
        d = os.path.join(SEEDED, name)
        if not os.path.isdir(d) or (only and name not in only):
            continue
        meta = json.load(open(os.path.join(d, "meta.json")))
        tmp = tempfile.mkdtemp(prefix="seeded-src-", dir="/var/tmp")
        try:
            shutil.copytree("/repo/src", os.path.join(tmp, "src"), ignore=shutil.ignore_patterns("__pycache__"))
            ap = subprocess.run(["patch", "-s", "-p1", "-i", os.path.join(d, "patch.diff")], cwd=tmp, capture_output=True, text=True)
            if ap.returncode != 0:
                results[name] = {"property": meta["property"], "error": "patch does not apply: " + (ap.stdout + ap.stderr)[-300:]}
                print(name, "PATCH FAILED")
                continue
            targets = props if all_checks else [meta["property"]]
            caught = {}
            for prop in targets:
                for k in range(nseeds):
                    seed = 20261004 + k * 7919
                    rc, sigs, last = run_check(prop, os.path.join(tmp, "src"), seed)
                    if rc == 1:
                        caught.setdefault(prop, {"seed": seed, "signatures": sigs[:4], "summary": last})
                        break
                    if rc == 2:
                        caught.setdefault(prop + " (harness error)", {"seed": seed, "summary": last})
                        break
            results[name] = {"property": meta["property"], "needs": meta.get("needs"), "caught_by": caught,
                             "target_caught": meta["property"] in caught}
            print(name, "->", "CAUGHT by " + ", ".join(caught) if caught else "MISSED")
        finally:
            shutil.rmtree(tmp, ignore_errors=True)
    with open(os.path.join(SEEDED, "results.json"), "w") as f:
        json.dump(results, f, indent=1, sort_keys=True)
    lines = ["# Seeded changes and the checks that catch them", "",
             "Each change was produced by an independent sub-agent that saw only the property text and a scratch worktree, confirmed by hand",
             "(suite green with the change, demonstration fails with it and passes without), and is kept as `patch.diff` + demonstration + `meta.json`.",
             "Regenerate with `tools/run_seeded.py [--all]`.", "",
             "| id | property | needs, in order to manifest | caught by (first seed) | oracle / signature |", "|---|---|---|---|---|"]
    for name, r in sorted(results.items()):
        if "error" in r:
            lines.append(f"| {name} | {r['property']} | - | **{r['error']}** | |")
            continue
        cb = r["caught_by"]
        meta_p = os.path.join(SEEDED, name, "meta.json")
        note = json.load(open(meta_p)).get("not_expected_to_be_caught") if os.path.exists(meta_p) else None
        who = ", ".join(f"{p} ({v['seed']})" for p, v in cb.items()) or ("not expected: outside the quantifier (see meta.json)" if note else "**missed**")
        sig = "; ".join(s for v in cb.values() for s in v.get("signatures", [])[:2])[:300]
        lines.append(f"| {name} | {r['property']} | {str(r.get('needs'))[:200]} | {who} | {sig} |")
    with open(os.path.join(SEEDED, "INDEX.md"), "w") as f:
        f.write("\n".join(lines) + "\n")


if __name__ == "__main__":
    main(sys.argv[1:])
