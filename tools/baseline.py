#!/usr/bin/env python3
"""Run the repository's pinned suite and compare with /root/.vp/BASELINE.json (stable_pass)."""
import json, subprocess, sys, tempfile, os, xml.etree.ElementTree as ET
repo = sys.argv[1] if len(sys.argv) > 1 else "/repo"
base = json.load(open("/root/.vp/BASELINE.json"))
with tempfile.TemporaryDirectory(dir="/var/tmp") as d:
    xml = os.path.join(d, "j.xml")
    env = dict(os.environ)
    if repo != "/repo":
        env["PYTHONPATH"] = os.path.join(repo, "src")
    p = subprocess.run(["/venv/bin/python", "-m", "pytest", "-ra", "-q", "-p", "no:cacheprovider", "--timeout=900",
                        "--continue-on-collection-errors", f"--junitxml={xml}"], cwd=repo, capture_output=True, text=True, env=env)
    passed = set()
    for tc in ET.parse(xml).getroot().iter("testcase"):
        if not any(c.tag in ("failure", "error", "skipped") for c in tc):
            passed.add(f"{tc.get('classname')}::{tc.get('name')}")
missing = [t for t in base["stable_pass"] if t not in passed]
print(f"stable_pass={len(base['stable_pass'])} passed_now={len(passed)} missing={len(missing)}")
for t in missing[:20]:
    print("  MISSING", t)
sys.exit(1 if missing else 0)
