#!/usr/bin/env python3
"""Regenerate MANIFEST.json's checks from the table below (keeps the file valid at all times)."""
import json, os, sys
VERIF = os.path.dirname(os.path.dirname(os.path.abspath(__file__)))
TEXT = {
 "C01": ("round trip under histories: alias twins, cache clears / LRU eviction, zone and clock changes between marshal and unmarshal, replicas under other hash seed/zone/clock", "§6 C01"),
 "C02": ("all entry points and peers evaluated at one step of a seeded history (stale codec handles after cache clears, union-order codec keys, failing encoder/decoder peers)", "§6 C02"),
 "C03": ("channel-fault search: corrupted wire forms and junk into unmarshal/decode under histories (memoised corrupt text, cleared caches), oracle = raises or structurally conforms", "§6 C03"),
 "C04": ("scalar text/numeric wire forms under warmed equal-key memos, capacity-1 LRUs, zone switches and clock jumps; independent ISO-8601 reader and Python's printer as oracles", "§6 C04"),
 "C06": ("repeated-call and aliasing oracles on marshal output under histories, result mutation, hash-seed replicas", "§6 C06"),
 "C07": ("recursive worlds: build/first-call order, real RecursionError unwinding (stack exhaustion fault) followed by shallower calls, deep trampolines", "§6 C07"),
 "C08": ("the same union member set built in several orders in one process in seeded order, cache clears in between; oracle = first acceptor among independently obtained member routines", "§6 C08"),
 "C09": ("graph invariants re-checked after mutating the memoised sequence, cache clears, spellings re-entering through the memo", "§6 C09"),
 "C11": ("wrapper chains and references issued from several modules and stack depths in seeded order; same bare name in two modules", "§6 C11"),
 "C12": ("seeded search over histories x environments x faults; every operation compared with its execution alone in a cold process, replicas under other hash seed / zone / clock compared step by step", "§6 C12"),
 "C14": ("carrier equivalence under buffer re-use, equal text in another carrier first, capacity-1 strload memo, mutation of decoded containers", "§6 C14"),
 "C15": ("build / clear / rebuild / other-order / low-headroom build histories over U+ annotations; behaviour of rebuilt routines compared", "§6 C15"),
 "C16": ("operation sequences on TypeContext against a write-once reference model, with predicate-memo clears, typing-cache clears and ForwardRef evaluation as faults", "§6 C16"),
 "C17": ("the finite predicate x object catalogue evaluated in seeded order with alias twins adjacent, memo clears, cold-process stability reference and the runtime as model", "§6 C17"),
 "C18": ("stream faults (empty, error after k elements), interleaved consumption, strategy-memo clears against a pair/field iteration model", "§6 C18"),
 "C19": ("decoration histories (failed decorations in between, repeated names, re-based subclasses) with the undecorated dataclass as twin model", "§6 C19"),
}
sys.path.insert(0, VERIF)
m = json.load(open(os.path.join(VERIF, "MANIFEST.json")))
have = [p for p in sorted(TEXT) if os.path.exists(os.path.join(VERIF, "tlsim", "props", p.lower() + ".py"))]
checks = []
for p in have:
    checks.append({
        "property_id": p,
        "quick_cmd": f"./check {p} --tier quick",
        "thorough_cmd": f"./check {p} --tier thorough",
        "evidence_file": f"/verif/evidence/{p}.json",
        "replay_cmd_template": "./check replay {path}",
        "engine": "tlsim",
        "level_claimed": {"category": "exploration", "text": TEXT[p][0] + "; seeded, replayable, minimised on failure", "design_ref": "DESIGN.md " + TEXT[p][1]},
        "level_note": "sampling, not enumeration; trusted base: the harness (/verif/tlsim), CPython 3.12.1, the clock shim; known findings listed in /verif/known_findings.json are reported as KNOWN-FINDING",
        "technique": "deterministic simulation with fault injection (seeded histories in fork-per-run templates, reference model / cold-process oracle, replay + minimisation)",
    })
m["checks"] = checks
m["engines"][0]["serves_properties"] = have
json.dump(m, open(os.path.join(VERIF, "MANIFEST.json"), "w"), indent=1)
print("checks:", have)
