#!/usr/bin/env python3
import json, glob, sys
sys.path.insert(0,'/verif')
from tlsim import model
d = sys.argv[1]
for p in sorted(glob.glob(d + '/*.json')):
    doc = json.load(open(p)); h = doc['history']
    print('==', p.split('/')[-1], doc['expect'])
    print('   detail:', json.dumps(doc.get('detail'))[:700])
    print('   env', h.get('env'))
    for m in h['world']['modules']:
        src = m.get('src') or model.render_module(m)
        body = src.split("return fn(*args, **kwargs)\n",1)[-1].strip()
        if body:
            print('   --', m['name'], '(future)' if m.get('future') else '')
            skip = False
            for ln in body.splitlines():
                if ln.strip().startswith(("def __eq__", "__hash__", "def __repr__", "return type(other)", "return 'Vw")):
                    continue
                if ln.strip(): print('      ', ln)
    for s in h['steps']:
        s2 = {k: v for k, v in s.items() if k not in ('amb',)}
        if isinstance(s2.get('t'), dict):
            s2['t'] = model.tsrc(s2['t'], s2.get('mod'))
        print('   >', json.dumps(s2)[:700])
