#!/usr/bin/env python3
"""Confirm a seeded change produced by a sub-agent and file it under /verif/seeded/<name>/.

usage: tools/confirm_seeded.py <dir with MUTANT/patch.diff, demo.py, NOTE.md> <name> <property> "<needs>"

In a scratch export of /repo's HEAD (outside /repo and /verif, removed afterwards):
  1. the demonstration must exit 0 without the change,
  2. the patch must apply, touch only src/typelib, and keep every stable_pass test of BASELINE.json passing,
  3. the demonstration must exit non-zero with the change.
"""
import json, os, shutil, subprocess, sys, tempfile, xml.etree.ElementTree as ET

src_dir, name, prop, needs = sys.argv[1], sys.argv[2], sys.argv[3], sys.argv[4]
VERIF = os.path.dirname(os.path.dirname(os.path.abspath(__file__)))
mut = os.path.join(src_dir, "MUTANT")
patch = os.path.join(mut, "patch.diff")
tmp = tempfile.mkdtemp(prefix="confirm-", dir="/var/tmp")
ran = []
try:
    subprocess.run(f"git -C /repo archive HEAD | tar -x -C {tmp}", shell=True, check=True)
    os.makedirs(os.path.join(tmp, "MUTANT"))
    shutil.copy(os.path.join(mut, "demo.py"), os.path.join(tmp, "MUTANT", "demo.py"))
    env = dict(os.environ, PYTHONPATH=os.path.join(tmp, "src"), PYTHONDONTWRITEBYTECODE="1")

    def demo():
        p = subprocess.run(["/venv/bin/python", "MUTANT/demo.py"], cwd=tmp, env=env, capture_output=True, text=True, timeout=300)
        return p.returncode, (p.stdout + p.stderr)[-1500:]

    rc0, out0 = demo()
    ran.append(f"demo on HEAD: exit {rc0}")
    files = [l[6:].strip() for l in open(patch) if l.startswith("+++ b/")]
    if not files or not all(f.startswith("src/typelib/") for f in files):
        sys.exit(f"REJECT {name}: patch touches {files}")
    ap = subprocess.run(["git", "apply", "--unsafe-paths", "--directory", tmp, patch], capture_output=True, text=True) if False else \
        subprocess.run(["patch", "-s", "-p1", "-i", patch], cwd=tmp, capture_output=True, text=True)
    if ap.returncode != 0:
        sys.exit(f"REJECT {name}: patch does not apply to HEAD: {ap.stdout}{ap.stderr}")
    xml = os.path.join(tmp, "j.xml")
    subprocess.run(["/venv/bin/python", "-m", "pytest", "-q", "-p", "no:cacheprovider", "--timeout=900", "--continue-on-collection-errors",
                    f"--junitxml={xml}"], cwd=tmp, env=env, capture_output=True, text=True)
    base = json.load(open("/root/.vp/BASELINE.json"))
    passed = set()
    for tc in ET.parse(xml).getroot().iter("testcase"):
        if not any(c.tag in ("failure", "error", "skipped") for c in tc):
            passed.add(f"{tc.get('classname')}::{tc.get('name')}")
    missing = [t for t in base["stable_pass"] if t not in passed]
    ran.append(f"suite with the change: {len(passed)} passed, {len(missing)} of {len(base['stable_pass'])} baseline tests missing")
    rc1, out1 = demo()
    ran.append(f"demo with the change: exit {rc1}")
    ok = rc0 == 0 and rc1 != 0 and not missing
    print(name, "CONFIRMED" if ok else "REJECTED", ran, "" if ok else (out0[-300:], out1[-300:], missing[:3]))
    if ok:
        dst = os.path.join(VERIF, "seeded", name)
        os.makedirs(dst, exist_ok=True)
        shutil.copy(patch, os.path.join(dst, "patch.diff"))
        shutil.copy(os.path.join(mut, "demo.py"), os.path.join(dst, "demo.py"))
        if os.path.exists(os.path.join(mut, "NOTE.md")):
            shutil.copy(os.path.join(mut, "NOTE.md"), os.path.join(dst, "NOTE.md"))
        json.dump({"property": prop, "needs": needs, "files": files, "confirmed": ran,
                   "base_commit": subprocess.check_output(["git", "-C", "/repo", "log", "--format=%h", "-1"], text=True).strip(),
                   "demo_output_with_change": out1[-800:]}, open(os.path.join(dst, "meta.json"), "w"), indent=1)
finally:
    shutil.rmtree(tmp, ignore_errors=True)
