"""Check driver: template pool, seeded search, determinism self-test, replica comparison,
minimisation, replay files, known findings, evidence."""

from __future__ import annotations

import collections
import json
import os
import queue
import subprocess
import sys
import threading
import time

from . import ENGINE_VERSION, core, minimise
from . import props as props_mod

VERIF = os.path.dirname(os.path.dirname(os.path.abspath(__file__)))
PY = os.environ.get("TLSIM_PYTHON", "/venv/bin/python")
SHIM = os.path.join(VERIF, "build", "libvsimclock.so")
LAUNCH = os.path.join(VERIF, "tlsim", "launch.py")
HASHSEEDS = {"quick": ["0", "12345"], "thorough": ["0", "12345", "1", "4242"]}


def ensure_built():
    if not os.path.exists(SHIM):
        subprocess.run(["make", "-C", VERIF, "build"], check=False, stdout=subprocess.DEVNULL, stderr=subprocess.DEVNULL)
    return os.path.exists(SHIM)


def child_env(hashseed: str) -> dict:
    env = {
        "PATH": "/usr/bin:/bin",
        "PYTHONHASHSEED": str(hashseed),
        "PYTHONDONTWRITEBYTECODE": "1",
        "TZ": "UTC",
        "LANG": "C.UTF-8",
        "LC_ALL": "C.UTF-8",
        "HOME": "/nonexistent",
        "TLSIM_REPO_SRC": os.environ.get("TLSIM_REPO_SRC", "/repo/src"),
        "PYTHONWARNINGS": "ignore",
    }
    if str(hashseed) != "0":
        # the other templates are processes whose locale is the bare C locale with UTF-8 mode off: the
        # interpreter's preferred and file-system encodings are ASCII there (the library's text encoding is
        # UTF-8 by contract, whatever the process locale says)
        env.update({"LANG": "C", "LC_ALL": "C", "PYTHONUTF8": "0", "PYTHONCOERCECLOCALE": "0"})
    if os.path.exists(SHIM):
        env["LD_PRELOAD"] = SHIM
    return env


class Worker:
    def __init__(self, hashseed: str, logf):
        self.hashseed = hashseed
        self.proc = subprocess.Popen(
            [PY, "-B", "-s", "-P", LAUNCH, "serve"], stdin=subprocess.PIPE, stdout=subprocess.PIPE,
            stderr=logf, env=child_env(hashseed), text=True, bufsize=1, cwd="/",
        )
        line = self.proc.stdout.readline()
        if not line:
            raise RuntimeError("harness: template failed to start (see log)")
        self.banner = json.loads(line)

    def do(self, job: dict) -> dict:
        self.proc.stdin.write(json.dumps(job) + "\n")
        self.proc.stdin.flush()
        line = self.proc.stdout.readline()
        if not line:
            raise RuntimeError("harness: template died")
        return json.loads(line)

    def close(self):
        try:
            self.proc.stdin.write(json.dumps({"mode": "quit"}) + "\n")
            self.proc.stdin.flush()
            self.proc.stdin.close()
        except Exception:
            pass
        try:
            self.proc.wait(timeout=5)
        except Exception:
            self.proc.kill()


class Pool:
    """Templates grouped by hash seed; one dispatcher thread per template."""

    def __init__(self, jobs: int, hashseeds: list[str], logpath: str):
        self.classes = hashseeds
        self.queues = [queue.Queue() for _ in hashseeds]
        self.results: queue.Queue = queue.Queue()
        self.logf = open(logpath, "w")
        self.workers = []
        self.threads = []
        self.dead = threading.Event()
        for k in range(jobs):
            c = k % len(hashseeds)
            w = Worker(hashseeds[c], self.logf)
            self.workers.append(w)
            th = threading.Thread(target=self._loop, args=(w, c), daemon=True)
            th.start()
            self.threads.append(th)

    def _loop(self, w: Worker, c: int):
        q = self.queues[c]
        while True:
            job = q.get()
            if job is None:
                return
            try:
                res = w.do(job)
            except Exception as e:  # noqa: BLE001
                res = {"id": job.get("id"), "harness_error": f"dispatch: {e}"}
                self.dead.set()
            res["_job"] = job
            self.results.put(res)

    def submit(self, job: dict, cls: int = 0):
        self.queues[cls % len(self.queues)].put(job)

    def close(self):
        for q in self.queues:
            for _ in self.workers:
                q.put(None)
        for w in self.workers:
            w.close()
        self.logf.close()

    def exec_history(self, history: dict, prop: str, cls: int = 0, timeout: float = 60.0) -> dict:
        """Synchronous single execution (used by the minimiser; own result routing)."""
        raise NotImplementedError


def run_inline(job: dict, hashseed: str, timeout: float = 120.0) -> dict:
    """One job in a genuinely fresh interpreter (no fork)."""
    p = subprocess.run([PY, "-B", "-s", "-P", LAUNCH, "inline"], input=json.dumps(job), capture_output=True,
                       text=True, env=child_env(hashseed), timeout=timeout, cwd="/")
    if p.returncode != 0 or not p.stdout.strip():
        return {"harness_error": f"inline interpreter failed rc={p.returncode}: {p.stderr[-2000:]}"}
    return json.loads(p.stdout.strip().splitlines()[-1])


# ------------------------------------------------------------------------------------------
# known findings
# ------------------------------------------------------------------------------------------


def load_findings() -> dict:
    path = os.path.join(VERIF, "known_findings.json")
    if not os.path.exists(path):
        return {"findings": [], "fixed": []}
    with open(path) as f:
        return json.load(f)


def finding_for(findings: dict, prop: str, oracle: str, sig: str):
    for f in findings.get("findings", ()):
        if f["property"] == prop and f["oracle"] == oracle and f["sig"] == sig:
            return f
    return None


# ------------------------------------------------------------------------------------------
# the check
# ------------------------------------------------------------------------------------------


class SyncExec:
    """Synchronous executor on a private template, for the minimiser and replays."""

    def __init__(self, hashseed: str, logpath: str):
        self.logf = open(logpath, "a")
        self.w = Worker(hashseed, self.logf)
        self.n = 0

    def __call__(self, history: dict, prop: str, timeout: float = 60.0) -> dict:
        self.n += 1
        return self.w.do({"id": -self.n, "mode": "exec", "prop": prop, "history": history, "timeout": timeout})

    def close(self):
        self.w.close()
        self.logf.close()


def _small_step(s: dict, cap: int = 1500) -> dict:
    out = dict(s)
    for k in ("v", "x", "w", "amb", "items"):
        if k in out:
            js = json.dumps(out[k])
            if len(js) > cap:
                out[k] = {"$elided": f"{len(js)} characters of value AST", "head": js[:300]}
    return out


def _compact_history(h: dict, max_steps: int = 12) -> dict:
    h = dict(h, steps=[_small_step(s) for s in h.get("steps", [])[:max_steps]] + h.get("steps", [])[max_steps:])
    return {
        "seed": h.get("seed"),
        "env": h.get("env"),
        "modules": [m["name"] + ":" + ",".join(d["n"] for d in m["decls"]) for m in (h.get("world") or {}).get("modules", ())],
        "steps": h.get("steps", [])[:max_steps],
        "n_steps": len(h.get("steps", [])),
        "meta": h.get("meta"),
    }


def run_check(prop_id: str, tier: str, *, base_seed: int | None = None, budget_s: float | None = None,
              jobs: int | None = None, runs: int | None = None, out=sys.stdout) -> int:
    t_start = time.time()
    prop = props_mod.get(prop_id)
    base_seed = int(os.environ.get("VERIF_SEED", "20261004")) if base_seed is None else base_seed
    jobs = int(os.environ.get("VERIF_JOBS", "0")) or jobs or min(16, os.cpu_count() or 4)
    if budget_s is None:
        budget_s = float(os.environ.get("VERIF_BUDGET_S", "0")) or (prop.QUICK_BUDGET_S if tier == "quick" else prop.THOROUGH_BUDGET_S)
    target_runs = runs or int(os.environ.get("VERIF_RUNS", "0")) or (prop.QUICK_RUNS if tier == "quick" else prop.THOROUGH_RUNS)
    shim_ok = ensure_built()
    os.makedirs(os.path.join(VERIF, "build", "logs"), exist_ok=True)
    logpath = os.path.join(VERIF, "build", "logs", f"{prop_id}-{tier}-{os.getpid()}.log")
    hashseeds = HASHSEEDS[tier]
    # every hash-seed class needs a template of its own (a class without one would never be served)
    jobs = max(jobs, len(hashseeds))
    findings = load_findings()
    pool = Pool(jobs, hashseeds, logpath)
    run_timeout = prop.RUN_TIMEOUT_S[tier]

    agg = {
        "runs": 0, "steps": 0, "steps_nontrivial": 0, "timeouts": 0, "harness_errors": [],
        "faults": collections.Counter(), "probes": collections.Counter(), "stats": collections.Counter(),
        "nontrivial": set(), "state_sigs": set(), "bigrams": set(), "fault_free_runs": 0,
        "clock_min": None, "clock_max": None, "clock_seam": None, "selftest_pairs": 0, "selftest_mismatch": [],
        "replica_pairs": 0, "replica_steps_compared": 0, "samples": [], "first_seed": None, "last_seed": None,
        "cold_forks": 0,
    }
    violations: dict[tuple, dict] = {}  # (oracle, sig) -> first result carrying it
    viol_counts = collections.Counter()
    pending: dict[int, dict] = {}  # run index -> {replica: result}
    selftest_n = max(10, target_runs // 50)
    nrep = max(1, prop.REPLICAS)
    NT_CAP = 3_000_000

    def make_jobs(i: int):
        seed = core.derive(base_seed, prop_id, i)
        js = []
        for r in range(nrep):
            js.append(({"id": i * 8 + r, "mode": "gen-run", "prop": prop_id, "seed": seed, "tier": tier,
                        "replica": r, "timeout": run_timeout, "want_history": i < 3 and r == 0, "_i": i}, (i + r) % len(hashseeds)))
        if i < selftest_n:
            js.append(({"id": i * 8 + 7, "mode": "gen-run", "prop": prop_id, "seed": seed, "tier": tier, "replica": 0,
                        "timeout": run_timeout, "_i": i, "_dup": True}, (i + 1) % len(hashseeds)))
        return js

    def absorb(res: dict):
        job = res.pop("_job")
        i = job["_i"]
        if res.get("harness_error") == "child died without a result" and getattr(prop, "TIMEOUT_IS_VERDICT", False):
            # for a property that includes termination, a run that exhausted its memory allowance
            # (a walk that allocates without end) is the same verdict as one that ran out of time
            res["timeout"] = True
            agg["probes_extra"] = agg.get("probes_extra", 0) + 1
        if res.get("timeout"):
            agg["timeouts"] += 1
            agg.setdefault("timeout_seeds", []).append(job.get("seed"))
            key = ("HARNESS-TIMEOUT", "timeout")
            if getattr(prop, "TIMEOUT_IS_VERDICT", False):
                violations.setdefault(key, {"job": job, "res": res})
                viol_counts[key] += 1
            return
        if res.get("harness_error"):
            if len(agg["harness_errors"]) < 5:
                agg["harness_errors"].append({"seed": job.get("seed"), "error": res["harness_error"], "trace": res.get("trace", "")})
            else:
                agg["harness_errors"].append(None)
            return
        slot = pending.setdefault(i, {})
        if job.get("_dup"):
            slot["dup"] = res
        else:
            slot[job["replica"]] = res
            agg["runs"] += 1
            agg["steps"] += res["steps"]
            agg["steps_nontrivial"] += res["stats"].get("steps_nontrivial", 0)
            agg["faults"].update(res["faults"])
            agg["probes"].update(res["probes"])
            agg["stats"].update(res["stats"])
            agg["cold_forks"] += res["stats"].get("cold_forks", 0)
            if not res["faults"]:
                agg["fault_free_runs"] += 1
            if len(agg["nontrivial"]) < NT_CAP:
                agg["nontrivial"].update(res["nontrivial"])
            agg["state_sigs"].update(res["state_sigs"])
            agg["bigrams"].update(res["bigrams"])
            lo, hi = res["clock_span"]
            if lo is not None:
                agg["clock_min"] = lo if agg["clock_min"] is None else min(agg["clock_min"], lo)
                agg["clock_max"] = hi if agg["clock_max"] is None else max(agg["clock_max"], hi)
            agg["clock_seam"] = res["clock_seam"]
            agg["first_seed"] = res["seed"] if agg["first_seed"] is None else agg["first_seed"]
            agg["last_seed"] = res["seed"]
            if res.get("history") is not None and not res["violations"] and len(agg["samples"]) < 3:
                agg["samples"].append(_compact_history(res["history"]))
            for v in res["violations"]:
                key = (v["oracle"], v["sig"])
                viol_counts[key] += 1
                if key not in violations:
                    violations[key] = {"job": job, "res": res, "violation": v}
        # cross checks when the slot is complete
        if "dup" in slot and 0 in slot and not slot.get("_st"):
            slot["_st"] = True
            agg["selftest_pairs"] += 1
            if slot["dup"]["digest"] != slot[0]["digest"]:
                agg["selftest_mismatch"].append({"seed": slot[0]["seed"], "a": slot[0]["digest"], "b": slot["dup"]["digest"],
                                                 "hs": [slot[0].get("hashseed"), slot["dup"].get("hashseed")]})
        if nrep > 1 and all(r in slot for r in range(nrep)) and not slot.get("_rp"):
            slot["_rp"] = True
            a = slot[0]
            for r in range(1, nrep):
                b = slot[r]
                agg["replica_pairs"] += 1
                if len(a["step_canons"]) != len(b["step_canons"]):
                    key = ("replica-divergence", "length")
                    viol_counts[key] += 1
                    violations.setdefault(key, {"job": job, "res": a, "violation": {"oracle": "replica-divergence", "step": -1, "sig": "length", "detail": {}}})
                    continue
                for k, (ca, cb) in enumerate(zip(a["step_canons"], b["step_canons"])):
                    if a["cmp_mask"][k] and b["cmp_mask"][k]:
                        agg["replica_steps_compared"] += 1
                        if ca != cb:
                            need = a if a.get("history") else None
                            v = {"oracle": "replica-divergence", "step": k, "sig": None,
                                 "detail": {"hashseeds": [a.get("hashseed"), b.get("hashseed")], "replica": r}}
                            key0 = ("replica-divergence", "pending")
                            viol_counts[key0] += 1
                            if key0 not in violations:
                                violations[key0] = {"job": job, "res": a, "violation": v, "replica_of": r, "needs_history": need is None}
                            break
        done = (0 in slot) and (nrep == 1 or all(r in slot for r in range(nrep))) and ("dup" in slot or i >= selftest_n)
        if done:
            pending.pop(i, None)

    # ---- main loop ---------------------------------------------------------------
    submitted = 0
    outstanding = 0
    next_i = 0
    deadline = t_start + budget_s
    max_out = jobs * 3
    stop_submitting = False
    try:
        while True:
            while not stop_submitting and outstanding < max_out and next_i < target_runs:
                for job, cls in make_jobs(next_i):
                    pool.submit(job, cls)
                    outstanding += 1
                    submitted += 1
                next_i += 1
            if outstanding == 0:
                break
            try:
                res = pool.results.get(timeout=run_timeout + 30)
            except queue.Empty:
                agg["harness_errors"].append({"error": "orchestrator: no result within timeout"})
                break
            outstanding -= 1
            absorb(res)
            if time.time() > deadline or pool.dead.is_set():
                stop_submitting = True
            if len(violations) >= 8:
                stop_submitting = True
        search_wall = time.time() - t_start

        # ---- fresh-interpreter determinism probe ---------------------------------------
        fresh_checked = 0
        if not agg["harness_errors"]:
            for i in range(min(2 if tier == "quick" else 5, target_runs)):
                seed = core.derive(base_seed, prop_id, i)
                job = {"id": 0, "mode": "gen-run", "prop": prop_id, "seed": seed, "tier": tier, "replica": 0, "timeout": run_timeout}
                fres = run_inline(job, "777")
                ref = None
                for k in list(pending):
                    pass
                # re-run in a template to compare (cheap)
                pool.submit(dict(job, _i=-1 - i, want_history=False), 0)
                tres = pool.results.get(timeout=run_timeout + 30)
                tres.pop("_job", None)
                if fres.get("harness_error") or tres.get("harness_error") or tres.get("timeout"):
                    agg["harness_errors"].append({"error": f"fresh-interpreter probe: {fres.get('harness_error') or tres.get('harness_error') or 'timeout'}"})
                    break
                fresh_checked += 1
                if fres["digest"] != tres["digest"]:
                    agg["selftest_mismatch"].append({"seed": seed, "a": tres["digest"], "b": fres["digest"], "hs": [tres.get("hashseed"), "777 (fresh interpreter)"]})

        # ---- report ----------------------------------------------------------------
        rc = 0
        lines = []
        replay_dir = os.path.join(os.environ.get("TLSIM_REPLAY_DIR") or os.path.join(VERIF, "replays"), prop_id)
        known_hit = []
        if agg["selftest_mismatch"]:
            rc = 2
            lines.append(f"HARNESS-NONDETERMINISM property={prop_id} {json.dumps(agg['selftest_mismatch'][:3])}")
        if agg["harness_errors"]:
            rc = 2
            for e in agg["harness_errors"][:3]:
                if e:
                    lines.append(f"HARNESS-ERROR property={prop_id} {e.get('error')}\n{e.get('trace', '')}")
        if agg["timeouts"] and not getattr(prop, "TIMEOUT_IS_VERDICT", False):
            rc = 2
            lines.append(f"HARNESS-TIMEOUT property={prop_id} runs_timed_out={agg['timeouts']} seeds={agg.get('timeout_seeds', [])[:5]}")

        # Violations are reported even when the determinism probe disagreed: outcomes that differ
        # between hash seeds are what a hash-order dependence of the *library* looks like (the
        # harness itself is shown hash-independent on the unchanged tree by the self-test), and the
        # violation found under one of the seeds is the useful report.  A harness error or timeout
        # still wins (nothing is believed then).
        harness_rc = rc
        only_nondeterminism = bool(agg["selftest_mismatch"]) and not agg["harness_errors"] and not (agg["timeouts"] and not getattr(prop, "TIMEOUT_IS_VERDICT", False))
        if only_nondeterminism:
            rc = 0
        minimised = []
        if violations and rc == 0:
            sx_cache: dict[str, SyncExec] = {}

            def sx_for(hs):
                if hs not in sx_cache:
                    sx_cache[hs] = SyncExec(hs, logpath)
                return sx_cache[hs]

            try:
                per_budget = (20.0 if tier == "quick" else 120.0)
                for key, info in list(violations.items()):
                    res = info["res"]
                    v = info.get("violation")
                    if key[0] == "HARNESS-TIMEOUT":
                        path = _write_replay(replay_dir, prop_id, info["job"].get("seed"), {"prop": prop_id, "seed": info["job"].get("seed"), "tier": tier, "note": "run did not terminate within its wall budget", "job": {k: x for k, x in info["job"].items() if not k.startswith('_')}}, {"oracle": "HARNESS-TIMEOUT", "sig": "timeout", "step": -1}, res.get("hashseed", hashseeds[0]))
                        lines.append(f"VIOLATION property={prop_id} replay={path}")
                        rc = 1
                        continue
                    hist = res.get("history")
                    hs = res.get("hashseed", hashseeds[0])
                    if hist is None:
                        # regenerate (replica divergence found on a run that did not carry its history)
                        job = {"id": 0, "mode": "gen-run", "prop": prop_id, "seed": res["seed"], "tier": tier,
                               "replica": 0, "timeout": run_timeout, "want_history": True}
                        rr = sx_for(hs).w.do(job)
                        hist = rr.get("history")
                    if key[0] == "replica-divergence":
                        path = _write_replay(replay_dir, prop_id, res["seed"], hist, v, hs, extra={"replica_divergence": info.get("violation", {}).get("detail")})
                        f = finding_for(findings, prop_id, "replica-divergence", "any")
                        if f:
                            known_hit.append(f)
                        else:
                            lines.append(f"VIOLATION property={prop_id} replay={path}")
                            rc = 1
                        continue
                    f = finding_for(findings, prop_id, key[0], key[1])
                    if f is not None and not os.environ.get("TLSIM_WRITE_KNOWN"):
                        known_hit.append(f)
                        continue
                    small, v2, tried = minimise.minimise(hist, prop_id, key, sx_for(hs), budget_s=per_budget, run_timeout=run_timeout)
                    minimised.append({"oracle": key[0], "sig": key[1], "steps_before": len(hist["steps"]), "steps_after": len(small["steps"]), "candidates_tried": tried})
                    # the signature is decided on the minimised history
                    key2 = (v2["oracle"], v2["sig"])
                    f = finding_for(findings, prop_id, key2[0], key2[1])
                    if f is not None:
                        known_hit.append(f)
                        if os.environ.get("TLSIM_WRITE_KNOWN"):
                            # maintenance: refresh the committed replay file of a known finding
                            _write_replay(replay_dir, prop_id, res["seed"], small, v2, hs)
                        continue
                    path = _write_replay(replay_dir, prop_id, res["seed"], small, v2, hs)
                    lines.append(f"VIOLATION property={prop_id} replay={path}")
                    lines.append(f"  oracle={v2['oracle']} sig={v2['sig']} step={v2['step']} detail={json.dumps(v2.get('detail'))[:600]}")
                    rc = 1
            finally:
                for s in sx_cache.values():
                    s.close()

        if only_nondeterminism and rc == 0:
            rc = harness_rc  # no violation to show for it: the disagreement itself is the (exit 2) result
        # known findings: replay each committed one; print a line while it still reproduces
        known_lines = []
        for f in findings.get("findings", ()):
            if f["property"] != prop_id:
                continue
            status = "reached this run" if any(k is f for k in known_hit) else None
            if status is None and f.get("replay"):
                rp = os.path.join(VERIF, f["replay"])
                if os.path.exists(rp):
                    ok, _ = replay_file(rp, quiet=True)
                    status = "reproduced from its replay file" if ok else None
            if status:
                known_lines.append(f"KNOWN-FINDING: property={prop_id} {f['what']} [{f['oracle']}/{f['sig']}; {status}]")
        wall = time.time() - t_start
        _write_evidence(prop, prop_id, tier, base_seed, agg, viol_counts, violations, known_hit, minimised, wall, search_wall,
                        jobs, hashseeds, shim_ok, fresh_checked, rc)
        for ln in known_lines:
            print(ln, file=out)
        for ln in lines:
            print(ln, file=out)
        nt = len(agg["nontrivial"])
        print(f"{prop_id} {tier}: runs={agg['runs']} steps={agg['steps']} nontrivial_distinct={nt} faults={sum(agg['faults'].values())} "
              f"violations={sum(1 for k in violations)} known={len(known_lines)} wall={wall:.1f}s rc={rc}", file=out)
        return rc
    finally:
        pool.close()
        try:
            if os.path.getsize(logpath) == 0:
                os.unlink(logpath)
        except OSError:
            pass


def _write_replay(replay_dir, prop_id, seed, history, violation, hashseed, extra=None) -> str:
    os.makedirs(replay_dir, exist_ok=True)
    path = os.path.join(replay_dir, f"{seed}-{core.digest(core.jdump([violation.get('oracle'), violation.get('sig')]))[:6]}.json")
    doc = {
        "engine": ENGINE_VERSION,
        "property": prop_id,
        "seed": seed,
        "hashseed": hashseed,
        "expect": {"oracle": violation.get("oracle"), "sig": violation.get("sig"), "step": violation.get("step")},
        "detail": violation.get("detail"),
        "history": history,
    }
    if extra:
        doc.update(extra)
    with open(path, "w") as f:
        json.dump(doc, f, indent=1, sort_keys=True)
    return path


def replay_file(path: str, quiet: bool = False, out=sys.stdout):
    """Re-execute a replay file in a fresh interpreter.  Returns (reproduced, result)."""
    ensure_built()
    with open(path) as f:
        doc = json.load(f)
    prop_id = doc["property"]
    exp = doc["expect"]
    if exp.get("oracle") == "HARNESS-TIMEOUT":
        job = dict(doc["history"].get("job", {}), timeout=props_mod.get(prop_id).RUN_TIMEOUT_S["quick"])
        try:
            res = run_inline(job, doc.get("hashseed", "0"), timeout=job["timeout"])
            ok = False
        except subprocess.TimeoutExpired:
            ok, res = True, {"timeout": True}
        if not quiet:
            print(f"VIOLATION property={prop_id} replay={path}" if ok else f"not reproduced: {path}", file=out)
        return ok, res
    job = {"id": 0, "mode": "exec", "prop": prop_id, "history": doc["history"], "timeout": 300}
    res = run_inline(job, doc.get("hashseed", "0"), timeout=300)
    ok = False
    for v in res.get("violations", ()):
        if v["oracle"] == exp["oracle"] and v["sig"] == exp["sig"] and (exp.get("step") is None or v["step"] == exp["step"]):
            ok = True
    if exp.get("oracle") == "replica-divergence":
        other = run_inline(job, "999" if doc.get("hashseed") != "999" else "998", timeout=300)
        k = exp.get("step")
        ok = bool(res.get("step_canons")) and res.get("step_canons") != other.get("step_canons")
    if not quiet:
        if ok:
            print(f"VIOLATION property={prop_id} replay={path}", file=out)
            print(f"  reproduced: oracle={exp['oracle']} sig={exp['sig']} step={exp.get('step')} digest={res.get('digest')}", file=out)
        else:
            print(f"not reproduced: {path} (violations now: {[(v['oracle'], v['sig'], v['step']) for v in res.get('violations', ())]}; {res.get('harness_error', '')})", file=out)
    return ok, res


def _write_evidence(prop, prop_id, tier, base_seed, agg, viol_counts, violations, known_hit, minimised, wall, search_wall,
                    jobs, hashseeds, shim_ok, fresh_checked, rc):
    evdir = os.environ.get("TLSIM_EVIDENCE_DIR") or os.path.join(VERIF, "evidence")
    os.makedirs(evdir, exist_ok=True)
    runs_per_hour = int(agg["runs"] / search_wall * 3600) if search_wall > 0 else 0
    span = None
    if agg["clock_min"] is not None:
        span = {"from_epoch_s": agg["clock_min"], "to_epoch_s": agg["clock_max"], "years": round((agg["clock_max"] - agg["clock_min"]) / 31557600, 2)}
    samples = agg["samples"] or [{"note": "no sample history was captured (run ended before the first result)"}]
    cov = {
        "evaluations": int(agg["steps"]),
        "distinct_nontrivial": len(agg["nontrivial"]),
        "rule": prop.RULE,
        "samples": samples,
        "runs": agg["runs"],
        "runs_per_hour": runs_per_hour,
        "seeds": {"base": base_seed, "first": agg["first_seed"], "last": agg["last_seed"], "derivation": "splitmix64(base, property, run index)"},
        "steps_in_nontrivial_state": int(agg["steps_nontrivial"]),
        "fault_free_runs": agg["fault_free_runs"],
        "faults_fired": dict(sorted(agg["faults"].items())),
        "faults_configured_but_not_fired": int(agg["stats"].get("faults_not_fired", 0)),
        "probes": dict(sorted(agg["probes"].items())),
        "state_signatures": len(agg["state_sigs"]),
        "op_bigrams": len(agg["bigrams"]),
        "simulated_clock_span": span,
        "cold_reference_forks": agg["cold_forks"],
        "replicas": {"per_run": max(1, prop.REPLICAS), "pairs_compared": agg["replica_pairs"], "steps_compared": agg["replica_steps_compared"]},
        "hash_seeds": hashseeds,
        "determinism_selftest": {"template_pairs": agg["selftest_pairs"], "fresh_interpreter_runs": fresh_checked, "mismatches": len(agg["selftest_mismatch"])},
        "components": {
            "real": ["typelib (from /repo/src working tree)", "typing", "pendulum", "orjson", "more_itertools", "json", "pickle", "copy"],
            "simulated": ["wall clock (LD_PRELOAD shim)" if shim_ok else "wall clock: real (seam unavailable)", "time zone (TZ+tzset)",
                          "hash seed (one template per PYTHONHASHSEED)", "call stack / issuing module (generated trampolines)",
                          "memo contents and LRU capacity", "recursion headroom"],
            "stubs": ["encoder/decoder peers", "wire (corruption operators)", "user classes (generated worlds)", "one-shot iterators and re-used buffers"],
        },
        "violations_by_oracle": {f"{k[0]}/{k[1]}": n for k, n in sorted(viol_counts.items(), key=lambda kv: str(kv[0]))},
        "known_findings_hit": [f"{f['oracle']}/{f['sig']}" for f in known_hit],
        "minimisation": minimised,
        "timeouts": agg["timeouts"],
        "workers": jobs,
        "exit_code": rc,
        "nontrivial_count_is_lower_bound": len(agg["nontrivial"]) >= 3_000_000,
    }
    doc = {
        "property_id": prop_id,
        "tier": tier,
        "seed": int(base_seed),
        "level": "exploration",
        "coverage": cov,
        "assumptions": list(prop.ASSUMPTIONS) + [
            "sampling, not enumeration: a clean batch is evidence, not proof",
            "only CPython 3.12 with the pinned pendulum/orjson is simulated",
        ],
        "wall_s": round(wall, 2),
        "violations": int(sum(1 for k in violations if finding_for(load_findings(), prop_id, k[0], k[1]) is None)) if rc == 1 else 0,
    }
    with open(os.path.join(evdir, f"{prop_id}.json"), "w") as f:
        json.dump(doc, f, indent=1, sort_keys=True)
