"""conforms(T, r): an independent structural type check of a *result* (DESIGN §5.2).

Works on the type AST and the world description, never on the library's dispatch tables.
Returns None if ``r`` conforms to ``t``, else a short path/description of the first
non-conforming position.
"""

from __future__ import annotations

import collections
import datetime
import decimal
import enum
import fractions
import pathlib
import re
import uuid

from . import model

SCALAR_CLASS = {
    "int": int, "bool": bool, "float": float, "str": str, "bytes": (bytes,), "bytearray": (bytearray,),
    "dec": decimal.Decimal, "frac": fractions.Fraction, "uuid": uuid.UUID, "ppath": pathlib.PurePosixPath,
    "purepath": pathlib.PurePath, "path": pathlib.Path, "pat": re.Pattern, "dt": datetime.datetime,
    "time": datetime.time, "td": datetime.timedelta,
}
LIST_ORIGIN = {"list": list, "Sequence": list, "MutableSequence": list, "Collection": list, "Iterable": list,
               "set": set, "AbstractSet": set, "MutableSet": set, "frozenset": frozenset, "deque": collections.deque}
DICT_KINDS = ("dict", "Mapping", "MutableMapping")


def conforms(t: dict, r, world: model.LoadedWorld, mod: str | None = None, path: str = "$", depth: int = 0):
    with model.headroom():
        return _c(t, r, world, path, 0)


def _c(t, r, w, path, depth):
    k = t["k"]
    if k in ("any", "object", "bare", "raw"):
        return None
    if k in ("final", "classvar"):
        return _c(t["a"], r, w, path, depth)
    if k == "none":
        return None if r is None else f"{path}: {type(r).__name__} is not None"
    if k == "int":
        return None if isinstance(r, int) else f"{path}: {type(r).__name__} is not int"
    if k == "date":
        ok = isinstance(r, datetime.date) and not isinstance(r, datetime.datetime)
        return None if ok else f"{path}: {type(r).__name__} is not a date"
    if k in SCALAR_CLASS:
        return None if isinstance(r, SCALAR_CLASS[k]) else f"{path}: {type(r).__name__} is not {k}"
    if k == "lit":
        try:
            ok = any(r == (bytes.fromhex(m["$b"]) if isinstance(m, dict) else m) for m in t["v"])
        except Exception:
            ok = False
        return None if ok else f"{path}: {r!r:.40} is not a declared Literal member"
    if k == "union":
        first = None
        for m in t["a"]:
            e = _c(m, r, w, path, depth)
            if e is None:
                return None
            first = first or e
        return f"{path}: no union member accepts {type(r).__name__} ({first})"
    if k in LIST_ORIGIN:
        cls = LIST_ORIGIN[k]
        if type(r) is not cls:
            return f"{path}: {type(r).__name__} is not {cls.__name__}"
        for i, e in enumerate(r):
            err = _c(t["a"], e, w, f"{path}[{i}]" if len(path) < 80 else path, depth + 1)
            if err:
                return err
        return None
    if k == "tuplevar":
        if type(r) is not tuple:
            return f"{path}: {type(r).__name__} is not tuple"
        for i, e in enumerate(r):
            err = _c(t["a"], e, w, f"{path}[{i}]" if len(path) < 80 else path, depth + 1)
            if err:
                return err
        return None
    if k == "tuple":
        if type(r) is not tuple:
            return f"{path}: {type(r).__name__} is not tuple"
        if len(r) != len(t["a"]):
            return f"{path}: fixed tuple of arity {len(t['a'])} has {len(r)} members"
        for i, (a, e) in enumerate(zip(t["a"], r)):
            err = _c(a, e, w, f"{path}[{i}]", depth + 1)
            if err:
                return err
        return None
    if k in DICT_KINDS:
        if type(r) is not dict:
            return f"{path}: {type(r).__name__} is not dict"
        for kk, vv in r.items():
            err = _c(t["a"][0], kk, w, path + ".<key>", depth + 1) or _c(t["a"][1], vv, w, f"{path}[{kk!r:.20}]" if len(path) < 80 else path, depth + 1)
            if err:
                return err
        return None
    if k == "ref":
        d = w.decl(t["m"], t["n"])
        cat = d["d"]
        if cat in ("newtype", "alias"):
            return _c(d["t"], r, w, path, depth)
        cls = w.obj(t["m"], t["n"])
        if cat == "enum":
            return None if isinstance(r, cls) else f"{path}: {type(r).__name__} is not a member of {t['n']}"
        if cat == "typeddict":
            if type(r) is not dict:
                return f"{path}: {type(r).__name__} is not dict (TypedDict {t['n']})"
            total = d.get("total", True)
            for f in d["fields"]:
                required = (not f["opt"]) if "opt" in f else ((total and not f.get("nr")) or f.get("req"))
                if f["n"] in r:
                    err = _c(f["t"], r[f["n"]], w, f"{path}.{f['n']}", depth + 1)
                    if err:
                        return err
                elif required:
                    return f"{path}: required key {f['n']!r} missing"
            return None
        if not isinstance(r, cls):
            return f"{path}: {type(r).__name__} is not {t['m']}.{t['n']}"
        for f in d.get("fields", ()):
            try:
                fv = getattr(r, f["n"])
            except AttributeError:
                return f"{path}.{f['n']}: attribute missing"
            err = _c(f["t"], fv, w, f"{path}.{f['n']}", depth + 1)
            if err:
                return err
        return None
    if k in ("sref", "fref"):
        return None
    return None
