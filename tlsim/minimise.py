"""Delta debugging over histories.  A candidate is accepted only if the *same oracle*
fails with the *same signature* in a fresh fork of a pristine template."""

from __future__ import annotations

import copy
import json
import time

FAULT_OPS = ("clear", "clear_typing", "shrink", "mutate_result", "mutate_input", "clock", "zone", "reclimit", "rewrite_slot")


def _refs_of(step) -> set:
    out = set()
    for k in ("ref", "from"):
        if k in step and step[k] is not None:
            out.add(step[k])
    for f in step.get("mid", ()):
        out |= _refs_of(f)
    for k in ("refs",):
        for r in step.get(k, ()):
            out.add(r)
    return out


def _close(steps):
    """Drop steps whose referenced step is gone (repeat to a fixpoint)."""
    while True:
        ids = {s.get("id") for s in steps}
        keep = [s for s in steps if _refs_of(s) <= ids]
        if len(keep) == len(steps):
            return keep
        steps = keep


def _mentions(obj, name: str) -> bool:
    return name in json.dumps(obj)


def minimise(history: dict, prop_id: str, key: tuple, execu, *, budget_s: float = 20.0, run_timeout: float = 60.0):
    t_end = time.time() + budget_s
    tried = 0
    best = copy.deepcopy(history)
    best_v = None

    def test(h):
        nonlocal tried
        tried += 1
        res = execu(h, prop_id, timeout=run_timeout)
        if res.get("timeout") and key[0] == "HARNESS-TIMEOUT":
            return {"oracle": "HARNESS-TIMEOUT", "sig": "timeout", "step": -1, "detail": {}}
        for v in res.get("violations", ()):
            if v["oracle"] == key[0] and v["sig"] == key[1]:
                return v
        return None

    v0 = test(best)
    if v0 is None:
        # not reproducible in isolation: report the original untouched
        return history, {"oracle": key[0], "sig": key[1], "step": -1, "detail": {"note": "violation did not reproduce when re-executed"}}, tried
    best_v = v0

    def attempt(h):
        nonlocal best, best_v
        if time.time() > t_end:
            return False
        v = test(h)
        if v is not None:
            best, best_v = h, v
            return True
        return False

    # 1. cut everything after the violating step
    if 0 <= best_v["step"] < len(best["steps"]) - 1:
        h = copy.deepcopy(best)
        h["steps"] = h["steps"][: best_v["step"] + 1]
        attempt(h)

    # 2. ddmin over steps
    n = 2
    while len(best["steps"]) >= 2 and time.time() < t_end:
        steps = best["steps"]
        chunk = max(1, len(steps) // n)
        reduced = False
        for start in range(0, len(steps), chunk):
            cand = steps[:start] + steps[start + chunk:]
            cand = _close(copy.deepcopy(cand))
            if not cand or len(cand) == len(steps):
                continue
            h = copy.deepcopy(best)
            h["steps"] = cand
            if attempt(h):
                n = max(n - 1, 2)
                reduced = True
                break
        if not reduced:
            if chunk == 1:
                break
            n = min(len(steps), n * 2)

    # 2b. unused declarations and modules
    if best.get("world"):
        changed = True
        while changed and time.time() < t_end:
            changed = False
            for mi, mod in enumerate(best["world"]["modules"]):
                for di in range(len(mod["decls"]) - 1, -1, -1):
                    name = mod["decls"][di]["n"]
                    others = [d for m2 in best["world"]["modules"] for d in m2["decls"] if d is not mod["decls"][di]]
                    if _mentions(best["steps"], name) or _mentions(others, name) or _mentions(best.get("meta"), name):
                        continue
                    h = copy.deepcopy(best)
                    del h["world"]["modules"][mi]["decls"][di]
                    h["world"]["modules"][mi].pop("src", None)
                    if attempt(h):
                        changed = True
                        break
                if changed:
                    break
    # 3. faults inside steps
    for si in range(len(best["steps"])):
        if best["steps"][si].get("mid"):
            h = copy.deepcopy(best)
            h["steps"][si]["mid"] = []
            attempt(h)

    # 4. environment toward the plainest one
    for k, plain in (("tz", "UTC"), ("reclimit", 1000), ("clock", [0, 0])):
        if best["env"].get(k) != plain:
            h = copy.deepcopy(best)
            h["env"][k] = plain
            attempt(h)
    for si in range(len(best["steps"])):
        s = best["steps"][si]
        if s.get("depth"):
            h = copy.deepcopy(best)
            h["steps"][si]["depth"] = 0
            attempt(h)

    # 5. containers inside step inputs
    for si in range(len(best["steps"])):
        for fld in ("x", "v"):
            if fld in best["steps"][si]:
                _shrink_value(best, si, fld, attempt, lambda: best, t_end)

    return best, best_v, tried


_SHRINKABLE = ("$list", "$set", "$frozenset", "$deque")  # never $dict: it may be a TypedDict / fixed shape


def _paths(v, path=()):
    """Paths to shrinkable containers inside a value AST."""
    if isinstance(v, dict):
        for tag in _SHRINKABLE:
            if tag in v and len(v[tag]) > 0:
                yield path + (tag,)
        for k, x in v.items():
            yield from _paths(x, path + (k,))
    elif isinstance(v, list):
        for i, x in enumerate(v):
            yield from _paths(x, path + (i,))


def _get(v, path):
    for p in path:
        v = v[p]
    return v


def _shrink_value(best, si, fld, attempt, cur, t_end):
    progress = True
    rounds = 0
    while progress and time.time() < t_end and rounds < 6:
        progress = False
        rounds += 1
        root = cur()["steps"][si][fld]
        for path in list(_paths(root)):
            try:
                items = _get(cur()["steps"][si][fld], path)
            except (KeyError, IndexError, TypeError):
                continue
            if not items:
                continue
            for cand in ([], items[: len(items) // 2], items[len(items) // 2:], items[1:], items[:-1]):
                if len(cand) >= len(items):
                    continue
                h = copy.deepcopy(cur())
                tgt = h["steps"][si][fld]
                for p in path[:-1]:
                    tgt = tgt[p]
                tgt[path[-1]] = copy.deepcopy(cand)
                if attempt(h):
                    progress = True
                    break
            if progress:
                break
