"""Helpers shared by the property generators: alias twins, carriers, junk, fault steps."""

from __future__ import annotations

import copy
import json
import re

from . import core, gen, seams
from .model import twalk

# ---------------------------------------------------------------------------- type twins


def type_twins(rng, t: dict) -> list[dict]:
    """Equal-but-differently-represented spellings of one type (fault F5)."""
    out = []
    # union member order / spelling
    def rewrite(node, fn):
        node = copy.deepcopy(node)
        for n in twalk(node):
            fn(n)
        return node

    if any(n["k"] == "union" for n in twalk(t)):
        def rev(n):
            if n["k"] == "union":
                n["a"] = list(reversed(n["a"]))
                if n.get("sp") == "optional":
                    n["sp"] = "typing"
        out.append(rewrite(t, rev))

        def resp(n):
            if n["k"] == "union":
                if n.get("sp") == "optional":
                    n["sp"] = "pipe"
                elif n.get("sp") == "pipe":
                    n["sp"] = "optional" if (len(n["a"]) == 2 and n["a"][1]["k"] == "none") else "typing"
                else:
                    n["sp"] = "pipe"
        out.append(rewrite(t, resp))

        def rot(n):
            if n["k"] == "union" and len(n["a"]) > 2:
                n["a"] = n["a"][1:] + n["a"][:1]
                if n.get("sp") == "optional":
                    n["sp"] = "typing"
        if any(n["k"] == "union" and len(n["a"]) > 2 for n in twalk(t)):
            out.append(rewrite(t, rot))
    if any(n["k"] == "lit" and len(n["v"]) > 1 for n in twalk(t)):
        def revl(n):
            if n["k"] == "lit":
                n["v"] = list(reversed(n["v"]))
        out.append(rewrite(t, revl))
    if any("sp" in n and n["k"] != "union" for n in twalk(t)):
        def flip(n):
            if "sp" in n and n["k"] != "union":
                if n["sp"] == "typing":
                    n["sp"] = "builtin" if n["k"] in ("list", "set", "frozenset", "deque", "dict", "tuple", "tuplevar") else "abc"
                else:
                    n["sp"] = "typing"
        out.append(rewrite(t, flip))
    # drop exact duplicates of the original
    k0 = core.jdump(t)
    ded, seen = [], {k0}
    for x in out:
        kk = core.jdump(x)
        if kk not in seen:
            seen.add(kk)
            ded.append(x)
    return ded


def same_union_order(a, b) -> bool:
    ua = [tuple(core.jdump(x) for x in n["a"]) for n in twalk(a) if n["k"] == "union"]
    ub = [tuple(core.jdump(x) for x in n["a"]) for n in twalk(b) if n["k"] == "union"]
    la = [n["v"] for n in twalk(a) if n["k"] == "lit"]
    lb = [n["v"] for n in twalk(b) if n["k"] == "lit"]
    return ua == ub and la == lb


def order_preserving_twins(rng, t):
    """Spelling twins only (typing vs builtin, Optional vs |): member order kept.  Reordered
    unions are the business of C08/C12, where the union-order-alias finding is attributed."""
    return [x for x in type_twins(rng, t) if same_union_order(t, x)]


# ---------------------------------------------------------------------------- value twins


_CONTAINER_TAGS = ("$list", "$tuple", "$set", "$frozenset", "$deque", "$dict", "$odict", "f")


def value_twin(rng, v, numeric=True):
    """A value AST that is ==/hash-equal to ``v`` where Python's equality allows another
    representation: equal instants with another offset, 1/1.0/True, Decimal exponents."""
    v = copy.deepcopy(v)
    changed = [False]

    def walk(x):
        if isinstance(x, dict):
            if "$dt" in x:
                y, m, d, H, M, S, us, off = x["$dt"][:8]
                if off is not None and 2 <= y <= 9998:
                    import datetime

                    new_off = rng.choice([o for o in (0, 330, -300, 60, 765, -480) if o != off])
                    base = datetime.datetime(y, m, d, H, M, S, us) + datetime.timedelta(minutes=new_off - off)
                    x["$dt"] = [base.year, base.month, base.day, base.hour, base.minute, base.second, base.microsecond, new_off]
                    changed[0] = True
                return x
            if "$t" in x:
                H, M, S, us, off = x["$t"][:5]
                if off is not None:
                    for new_off in rng.sample([0, 330, -300, 60, 765, -480], 6):
                        mins = H * 60 + M + (new_off - off)
                        if new_off != off and 0 <= mins < 1440:  # stays within the day: equal and hash-equal
                            x["$t"] = [mins // 60, mins % 60, S, us, new_off]
                            changed[0] = True
                            break
                return x
            if "$f" in x and not numeric:
                if repr(x["$f"]) in ("0.0", "'0.0'", "-0.0", "'-0.0'", "0", "'0'"):
                    x["$f"] = "-0.0" if str(x["$f"]) in ("0.0", "0") else "0.0"
                    changed[0] = True
                return x
            if "$dec" in x:
                import decimal

                d = decimal.Decimal(x["$dec"])
                if d.is_finite() and -6 < d.as_tuple().exponent <= 0:
                    x["$dec"] = str(d) + ("0" if "." in str(d) else ".0")
                    changed[0] = True
                return x
            if "$td" in x:
                return x
            for k in list(x):
                if k in _CONTAINER_TAGS or not k.startswith("$"):
                    x[k] = walk(x[k])
            return x
        if isinstance(x, list):
            return [walk(e) for e in x]
        if isinstance(x, bool) or not numeric:
            return x
        if isinstance(x, int) and x in (0, 1) and rng.random() < 0.5:
            changed[0] = True
            return bool(x)
        if isinstance(x, int) and abs(x) < 2**53 and rng.random() < 0.3:
            changed[0] = True
            return {"$f": repr(float(x))}
        return x

    out = walk(v)
    return out if changed[0] else None


# ---------------------------------------------------------------------------- carriers

CARRIERS = ("str", "bytes", "bytearray", "mv", "mvw")
WINDOW_CARRIERS = ("mvs", "mvws", "mvro")  # memoryviews that are windows onto a larger buffer; a read-only view of a writable one


def carry(text: str, carrier: str):
    if carrier == "str":
        return text
    hx = text.encode("utf-8", "surrogatepass").hex()
    return {{"bytes": "$b", "bytearray": "$ba", "mv": "$mv", "mvw": "$mvw", "mvs": "$mvs", "mvws": "$mvws", "mvro": "$mvro"}[carrier]: hx}


def json_text(wire) -> str | None:
    try:
        return json.dumps(gen.wire_to_json(wire))
    except (TypeError, ValueError):
        return None


def repr_text(wire) -> str | None:
    try:
        return repr(gen.wire_to_json(wire))
    except (TypeError, ValueError):
        return None


def literal_keys_text(wire) -> str | None:
    """Python-literal text of a wire value in which mapping keys that *read* as other literals are
    written as those literals ({1: ..}, {None: ..}, {(1, 2): ..}): valid input for the text
    decoder's literal fallback, with keys that are not str."""
    import ast

    def conv(x):
        if isinstance(x, dict):
            out = {}
            for k, v in x.items():
                nk = k
                if isinstance(k, str):
                    try:
                        lit = ast.literal_eval(k)
                        hash(lit)
                        nk = lit
                    except Exception:  # noqa: BLE001 - not a literal (or unhashable): stays text
                        nk = k
                if nk in out:
                    nk = k
                out[nk] = conv(v)
            return out
        if isinstance(x, list):
            return [conv(e) for e in x]
        return x

    try:
        return repr(conv(gen.wire_to_json(wire)))
    except (TypeError, ValueError):
        return None


# ---------------------------------------------------------------------------- junk pool

JUNK = [
    None, True, False, 0, 1, -1, 2**70, {"$f": "1.5"}, {"$f": "-0.0"}, "", "a", "ab", "1", "1.0", "null", "None", "true",
    "[1]", "{}", "1,2", "2020-01-01", "12:00", "PT1S", "[1, 2", '{"a": 1}', "(1, 2)", "{'a': 1}", "[[1, 2], [3, 4]]",
    {"$b": "31"}, {"$b": "ff"}, {"$b": ""}, {"$ba": "5b315d"}, {"$mv": "7b7d"},
    {"$list": []}, {"$list": [1]}, {"$list": [1, 2]}, {"$list": ["a", "b", "c"]}, {"$list": [{"$list": [1, 2]}, {"$list": [3, 4]}]},
    {"$tuple": []}, {"$tuple": [1, "a"]}, {"$set": [1, 2]}, {"$dict": []}, {"$dict": [["a", 1]]}, {"$dict": [[1, 2]]},
    {"$dict": [["a", {"$dict": [["b", 1]]}]]}, {"$d": [2020, 1, 1]}, {"$dt": [2020, 1, 1, 0, 0, 0, 0, 0]},
    {"$dt": [2020, 1, 1, 12, 0, 0, 0, None]}, {"$t": [12, 0, 0, 0, None]}, {"$t": [12, 0, 0, 0, 330]}, {"$td": [1, 0, 0]},
    {"$dec": "1.5"}, {"$fr": [1, 2]}, {"$uuid": "0" * 32}, {"$path": ["PurePosixPath", "a/b"]}, {"$re": "a+"},
    {"$gen": [1, 2]}, {"$iter": []}, {"$gen": [{"$tuple": ["a", 1]}]},
]


def junk(rng):
    return copy.deepcopy(rng.choice(JUNK))


_TIME_ONLY = re.compile(r"(?<![0-9T:.+-])\d{1,2}:\d{1,2}")


def env_relative_value(v) -> bool:
    """Does this input legitimately make the outcome depend on clock or zone?
    (time-only text, naive temporals, aware times converted via 'today').  Iterative."""
    stack = [v]
    while stack:
        cur = stack.pop()
        if isinstance(cur, str):
            if _TIME_ONLY.search(cur) or cur.strip().startswith("T") or cur == "now":
                return True
        elif isinstance(cur, list):
            stack.extend(cur)
        elif isinstance(cur, dict):
            if "$t" in cur:
                return True
            if "$dt" in cur and cur["$dt"][7] is None:
                return True
            hit = False
            for tag in ("$b", "$ba", "$mv", "$mvw", "$mvs", "$mvws", "$mvro", "$mm"):
                if tag in cur:
                    hit = True
                    try:
                        stack.append(bytes.fromhex(cur[tag]).decode("utf-8"))
                    except Exception:
                        pass
            if not hit:
                stack.extend(cur.values())
    return False


# ---------------------------------------------------------------------------- fault steps

LRU_NAMES = ("strload", "dateparse", "isoformat")
CLEAR_GROUPS = ("all", "values", "routines", "graph", "refs", "predicates", "iter")


def fault_step(rng, kind: str, steps: list) -> dict | None:
    """A fault op of the given kind, placed against the steps generated so far."""
    if kind == "clear":
        return {"op": "clear", "group": core.weighted(rng, [(5, "all"), (3, "values"), (3, "routines"), (1, "graph"), (1, "refs"), (2, "predicates")])}
    if kind == "clear_typing":
        return {"op": "clear_typing"}
    if kind == "shrink":
        return {"op": "shrink", "name": rng.choice(LRU_NAMES), "cap": rng.choice([1, 1, 2, 8])}
    if kind in ("mutate_result", "mutate_input"):
        cands = [s["id"] for s in steps if s["op"] not in seams_fault_ops() and s["op"] != "build"]
        if not cands:
            return None
        # bias toward the most recent step: that is where in-flight state is
        ref = cands[-1] if rng.random() < 0.6 else rng.choice(cands)
        return {"op": kind, "ref": ref}
    if kind == "clock":
        r = rng.random()
        if r < 0.7:
            sec = rng.choice(seams.CLOCK_POINTS) + rng.choice([0, -1, 1, 86399, rng.randint(0, 86399)])
        else:
            sec = rng.randint(0, 7258118400)
        return {"op": "clock", "sec": max(0, sec), "usec": rng.choice([0, 999999, rng.randint(0, 999999)])}
    if kind == "zone":
        return {"op": "zone", "tz": rng.choice(seams.ZONES)}
    if kind == "reclimit":
        return {"op": "reclimit", "n": rng.choice([1000, 2000, 5000])}
    raise ValueError(kind)


def seams_fault_ops():
    return ("clear", "clear_typing", "shrink", "mutate_result", "mutate_input", "clock", "zone", "reclimit", "rewrite_slot")


def swarm(rng, kinds, *, fault_free_p=0.25):
    """A random subset of the enabled fault kinds with per-kind rates."""
    if rng.random() < fault_free_p:
        return {}
    chosen = [k for k in kinds if rng.random() < 0.6] or [rng.choice(list(kinds))]
    return {k: rng.choice([0.05, 0.1, 0.2, 0.35]) for k in chosen}
