"""An independent, strict ISO-8601 reader (DESIGN §5.6) written from the standard:
calendar dates, times and datetimes with offsets, and durations.  Used only as an oracle."""

from __future__ import annotations

import datetime
import re

_DATE = r"(?P<y>\d{4})-(?P<mo>\d{2})-(?P<d>\d{2})"
_TIME = r"(?P<H>\d{2}):(?P<M>\d{2})(?::(?P<S>\d{2})(?:[.,](?P<f>\d{1,9}))?)?"
_OFF = r"(?P<off>Z|[+-]\d{2}:\d{2}(?::\d{2}(?:\.\d{1,6})?)?)?"
RE_DATE = re.compile(f"^{_DATE}$")
RE_TIME = re.compile(f"^T?{_TIME}{_OFF}$")
RE_DT = re.compile(f"^{_DATE}[T ]{_TIME}{_OFF}$")
RE_DUR = re.compile(
    r"^(?P<sign>[+-])?P(?:(?P<Y>\d+)Y)?(?:(?P<Mo>\d+)M)?(?:(?P<W>\d+)W)?(?:(?P<D>\d+)D)?"
    r"(?:T(?:(?P<H>\d+)H)?(?:(?P<Mi>\d+)M)?(?:(?P<S>\d+)(?:[.,](?P<f>\d{1,9}))?S)?)?$"
)


class IsoError(ValueError):
    pass


def _off(s):
    if s is None:
        return None
    if s == "Z":
        return datetime.timezone.utc
    sign = -1 if s[0] == "-" else 1
    parts = s[1:].split(":")
    h, m = int(parts[0]), int(parts[1])
    sec = float(parts[2]) if len(parts) > 2 else 0.0
    if h > 23 or m > 59:
        raise IsoError(f"bad offset {s!r}")
    return datetime.timezone(sign * datetime.timedelta(hours=h, minutes=m, seconds=sec))


def _us(f):
    if f is None:
        return 0
    if len(f) > 6:
        if set(f[6:]) != {"0"}:
            raise IsoError("sub-microsecond precision")
        f = f[:6]
    return int(f.ljust(6, "0"))


def parse_date(s: str) -> datetime.date:
    m = RE_DATE.match(s)
    if not m:
        raise IsoError(f"not an ISO calendar date: {s!r}")
    try:
        return datetime.date(int(m["y"]), int(m["mo"]), int(m["d"]))
    except ValueError as e:
        raise IsoError(str(e)) from None


def parse_time(s: str) -> datetime.time:
    m = RE_TIME.match(s)
    if not m:
        raise IsoError(f"not an ISO time: {s!r}")
    try:
        return datetime.time(int(m["H"]), int(m["M"]), int(m["S"] or 0), _us(m["f"]), tzinfo=_off(m["off"]))
    except ValueError as e:
        raise IsoError(str(e)) from None


def parse_datetime(s: str) -> datetime.datetime:
    m = RE_DT.match(s)
    if not m:
        raise IsoError(f"not an ISO datetime: {s!r}")
    try:
        return datetime.datetime(int(m["y"]), int(m["mo"]), int(m["d"]), int(m["H"]), int(m["M"]), int(m["S"] or 0),
                                 _us(m["f"]), tzinfo=_off(m["off"]))
    except ValueError as e:
        raise IsoError(str(e)) from None


def parse_duration_us(s: str) -> int:
    """Total microseconds of an ISO-8601 duration without calendar components
    (years/months are rejected: they have no fixed length)."""
    m = RE_DUR.match(s)
    if not m or s in ("P", "PT", "-P", "+P") or s.endswith("T"):
        raise IsoError(f"not an ISO duration: {s!r}")
    if m["Y"] or m["Mo"]:
        raise IsoError("calendar components have no fixed length")
    if not any(m[k] for k in ("W", "D", "H", "Mi", "S")):
        raise IsoError(f"empty duration: {s!r}")
    total = 0
    total += int(m["W"] or 0) * 7 * 86400 * 1_000_000
    total += int(m["D"] or 0) * 86400 * 1_000_000
    total += int(m["H"] or 0) * 3600 * 1_000_000
    total += int(m["Mi"] or 0) * 60 * 1_000_000
    total += int(m["S"] or 0) * 1_000_000 + _us(m["f"])
    return -total if m["sign"] == "-" else total


def td_us(td: datetime.timedelta) -> int:
    # (the base class's exact integer division: a subclass may re-define what .days/.seconds mean)
    return datetime.timedelta.__floordiv__(td, datetime.timedelta(microseconds=1))
