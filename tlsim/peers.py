"""Stub peers: encoder/decoder pairs supplied by the harness (DESIGN §4.4)."""

from __future__ import annotations

import json


class PeerFailure(RuntimeError):
    """Raised by a failing peer; must surface unchanged through the library."""


def json_encoder(v) -> bytes:
    return json.dumps(v).encode("utf-8")


def json_decoder(b):
    return json.loads(b)


def tag_encoder(v) -> bytes:
    return b"T1:" + json.dumps(v, separators=(",", ":")).encode("utf-8")


def tag_decoder(b):
    b = bytes(b)
    if not b.startswith(b"T1:"):
        raise ValueError("missing tag")
    return json.loads(b[3:])


class PeerValueFailure(PeerFailure, ValueError):
    """The same, as a ValueError (what a decoder that cannot read its schema yet, or a strict encoder, raises)."""


class Failing:
    """Wraps a peer function; raises PeerFailure on the k-th call (1-based)."""

    def __init__(self, fn, k: int, flavour: str = "runtime"):
        self.fn = fn
        self.k = k
        self.calls = 0
        self.flavour = flavour

    def __call__(self, v):
        self.calls += 1
        if self.calls == self.k:
            raise (PeerValueFailure if self.flavour == "value" else PeerFailure)(f"peer failed on call {self.k}")
        return self.fn(v)


def pair(name: str):
    """(encoder, decoder) or (None, None) for the library default."""
    if name == "default":
        return None, None
    if name == "json":
        return json_encoder, json_decoder
    if name == "tag":
        return tag_encoder, tag_decoder
    raise ValueError(name)
