"""Template process: imports the library once (caches cold), then executes every job in
a fork of itself so that each run starts from the state of a freshly started process.

Protocol: one JSON object per line on stdin (a job) and on stdout (its result).
"""

from __future__ import annotations

import faulthandler
import json
import os
import select
import signal
import sys
import time
import traceback


def _imports():
    # everything a run may need is imported *before* forking, so that a fork is cheap
    # and "cold" means "library imported, nothing called".
    import copy  # noqa: F401
    import pickle  # noqa: F401
    import weakref  # noqa: F401

    import pendulum  # noqa: F401
    import typelib  # noqa: F401
    import typelib.binding  # noqa: F401
    import typelib.graph  # noqa: F401
    import typelib.py.classes  # noqa: F401
    import typelib.py.future  # noqa: F401

    from . import core, gen, model, peers, props, seams, session  # noqa: F401

    for pid in props.CLAIMED:
        try:
            props.get(pid)
        except ModuleNotFoundError:
            pass


def run_job(job: dict) -> dict:
    from . import props, session

    prop = props.get(job["prop"])
    mode = job.get("mode", "gen-run")
    if mode == "gen-run":
        from . import model

        with model.headroom():
            history = prop.gen(job["seed"], job.get("tier", "quick"))
        history.setdefault("seed", job["seed"])
        history.setdefault("prop", job["prop"])
        history.setdefault("tier", job.get("tier", "quick"))
        prop.apply_replica(history, job.get("replica", 0))
    else:
        history = job["history"]
    t0 = time.perf_counter()
    sess = session.Session(history)
    try:
        prop.run(sess)
    except session.Abort as e:
        res = sess.result()
        res["harness_error"] = f"Abort: {e}"
        res["history"] = history
        return res
    res = sess.result()
    for v in res["violations"]:
        v["sig"] = prop.classify(history, v)
    res["wall"] = time.perf_counter() - t0
    if res["violations"] or job.get("want_history"):
        res["history"] = history
    return res


def _child(job: dict, wfd: int):
    code = 0
    try:
        os.setpgid(0, 0)
    except OSError:
        pass
    try:
        # a run that allocates without bound (a walk that never terminates) gets MemoryError - an
        # outcome the oracles can judge - instead of being killed by the kernel without a result
        import resource

        resource.setrlimit(resource.RLIMIT_AS, (3 << 30, 3 << 30))
    except (ImportError, ValueError, OSError):
        pass
    try:
        faulthandler.enable(file=sys.stderr)
        to = float(job.get("timeout", 60))
        faulthandler.dump_traceback_later(max(1.0, to - 0.5), exit=False, file=sys.stderr)
        try:
            res = run_job(job)
        except BaseException as e:  # noqa: BLE001
            res = {"harness_error": f"{type(e).__name__}: {e}", "trace": traceback.format_exc()[-4000:]}
        res["id"] = job.get("id")
        res["hashseed"] = os.environ.get("PYTHONHASHSEED", "")
        sys.setrecursionlimit(max(sys.getrecursionlimit(), 200_000))  # harness-only from here on
        data = json.dumps(res).encode()
        off = 0
        while off < len(data):
            off += os.write(wfd, data[off:off + 65536])
    except BaseException:  # noqa: BLE001
        code = 4
    finally:
        os._exit(code)


def _kill_group(pid: int):
    for target in (-pid, pid):
        try:
            os.kill(target, signal.SIGKILL)
        except (ProcessLookupError, PermissionError):
            pass


def serve():
    _imports()
    out = sys.stdout
    out.write(json.dumps({"ready": True, "pid": os.getpid(), "hashseed": os.environ.get("PYTHONHASHSEED", "")}) + "\n")
    out.flush()
    for line in sys.stdin:
        line = line.strip()
        if not line:
            continue
        job = json.loads(line)
        if job.get("mode") == "quit":
            break
        rfd, wfd = os.pipe()
        pid = os.fork()
        if pid == 0:
            os.close(rfd)
            _child(job, wfd)
        os.close(wfd)
        deadline = time.monotonic() + float(job.get("timeout", 60))
        chunks = []
        timed_out = False
        while True:
            left = deadline - time.monotonic()
            if left <= 0:
                timed_out = True
                break
            r, _, _ = select.select([rfd], [], [], min(left, 1.0))
            if r:
                b = os.read(rfd, 1 << 16)
                if not b:
                    break
                chunks.append(b)
        os.close(rfd)
        _kill_group(pid)
        try:
            os.waitpid(pid, 0)
        except ChildProcessError:
            pass
        if timed_out:
            res = {"id": job.get("id"), "timeout": True, "seed": job.get("seed")}
        else:
            try:
                res = json.loads(b"".join(chunks))
            except ValueError:
                res = {"id": job.get("id"), "harness_error": "child died without a result", "seed": job.get("seed")}
        out.write(json.dumps(res) + "\n")
        out.flush()


def replay_inline(job: dict) -> dict:
    """Execute a job in *this* interpreter (fresh process, no fork): used by replay and
    by the determinism self-test."""
    _imports()
    return run_job(job)


if __name__ == "__main__":  # pragma: no cover
    serve()
