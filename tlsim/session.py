"""One simulated process: executes a history against the real library.

A Session lives in a fork of a pristine template (or in a fresh interpreter for
replays).  It owns the seams, executes operations, keeps the step log and evaluates the
generic oracles; property modules add their own.
"""

from __future__ import annotations

import collections
import json
import os
import select
import signal
import sys
import time as _time

from . import core, model, peers, seams


class Outcome:
    __slots__ = ("ok", "value", "exc")

    def __init__(self, ok, value=None, exc=None):
        self.ok = ok
        self.value = value
        self.exc = exc

    def canon(self, unordered=False):
        if self.ok:
            v = self.value
            if unordered and isinstance(v, (bytes, bytearray)):
                # encoded output of an unordered input: compare the decoded structure
                b = bytes(v)
                try:
                    v = ["json", json.loads(b[3:] if b.startswith(b"T1:") else b)]
                except ValueError:
                    v = ["text-multiset", "".join(sorted(b.decode("utf-8", "replace")))]
            elif unordered and isinstance(v, str):
                # text built from an unordered input (str(set)): order-free rendering
                v = ["text-multiset", "".join(sorted(v))]
            return ["ok", model.canon(v, unordered=unordered)]
        return ["exc"] if unordered else ["exc", type(self.exc).__name__]

    def __repr__(self):
        return f"<ok {self.value!r}>" if self.ok else f"<exc {self.exc!r}>"


class Abort(Exception):
    """Harness-level error (never a property verdict)."""


def _has_unordered_input(v) -> bool:
    """True if a value AST contains an unordered collection of >= 2 elements (iterative:
    inputs may be nested hundreds of levels deep)."""
    stack = [v]
    while stack:
        cur = stack.pop()
        if isinstance(cur, dict):
            for tag in ("$set", "$frozenset"):
                if tag in cur and len(cur[tag]) >= 2:
                    return True
            stack.extend(cur.values())
        elif isinstance(cur, list):
            stack.extend(cur)
    return False


def _type_has_union(t) -> bool:
    return any(n["k"] == "union" for n in model.twalk(t)) if isinstance(t, dict) else False


def _type_has_set(t) -> bool:
    return any(n["k"] in model.SETLIKE for n in model.twalk(t)) if isinstance(t, dict) else False


class Session:
    def __init__(self, history: dict, *, cold: bool = False):
        self.history = history
        self.seed = history.get("seed", 0)
        self.prop = history.get("prop", "")
        self.world = model.LoadedWorld(history["world"]) if history.get("world") else None
        self.view_lookup = None
        self.clock = seams.Clock()
        self.memos = seams.Memos()
        self.chain = core.Chain(self.seed)
        self.violations: list[dict] = []
        self.stats = collections.Counter()
        self.faults = collections.Counter()
        self.probes = collections.Counter()
        self.nontrivial: set[str] = set()
        self.state_sigs: set[str] = set()
        self.bigrams: set[str] = set()
        self.results: dict[int, object] = {}
        self.inputs: dict[int, object] = {}
        self.outcomes: dict[int, Outcome] = {}
        self.step_canons: list = []
        self.cmp_mask: list[bool] = []
        self.env = {"tz": "UTC", "clock": [1_700_000_000, 0], "reclimit": 1000}
        self.fault_fired_before = False
        self.prebuilt = {}
        self.is_cold = cold
        self._cold = None
        self.rng = core.rng_for(self.seed, "exec")
        self._last_kind = "^"
        self.clock_min = None
        self.clock_max = None
        self.default_mod = history["world"]["modules"][0]["name"] if history.get("world") else None

    # ------------------------------------------------------------------ environment
    def apply_env(self, env: dict):
        if "tz" in env:
            seams.set_zone(env["tz"])
            self.env["tz"] = env["tz"]
        if "clock" in env:
            sec, usec = env["clock"]
            self.clock.set(sec, usec)
            self.env["clock"] = [sec, usec]
            self.clock_min = sec if self.clock_min is None else min(self.clock_min, sec)
            self.clock_max = sec if self.clock_max is None else max(self.clock_max, sec)
        if "reclimit" in env:
            sys.setrecursionlimit(max(1000, int(env["reclimit"])))
            self.env["reclimit"] = max(1000, int(env["reclimit"]))
        if env.get("json") == "stdlib":
            # the installation without the optional `orjson` extra: the library's JSON module is the stdlib's
            import json as _stdjson

            from typelib.py import compat

            compat.json = _stdjson
            self.env["json"] = "stdlib"
            self.faults["stdlib_json_configuration"] += 1
        if "warnings" in env:
            # the process-wide warnings filter (python -W error / PYTHONWARNINGS / pytest filterwarnings)
            import warnings

            warnings.resetwarnings()
            warnings.simplefilter(env["warnings"])
            self.env["warnings"] = env["warnings"]

    # ------------------------------------------------------------------ calling
    def call(self, step: dict, fn, *args, **kwargs):
        return self.world.call(step.get("mod"), int(step.get("depth", 0)), fn, *args, **kwargs)

    def scan_exhaust(self, step: dict, fn, *args, max_attempts: int = 400, stride: int = 1, **kwargs):
        """F10, swept: issue the same call from ever shallower stack depths, starting where not even
        the trampoline fits under the recursion limit, until it first completes.  Every attempt
        before that one is cut short by RecursionError one or a few frames further into the call, so the
        fault point sweeps over the whole call.  Returns (attempts that raised RecursionError,
        outcome of the first attempt that did not).  What the library keeps from the aborted
        attempts is what the caller judges afterwards."""
        limit = self.env["reclimit"]
        mod = step.get("mod")
        depth = limit - 8
        aborted = inside = 0
        last = None
        for _ in range(max_attempts):
            if depth < 0:
                break
            last = self.guarded(self.world.call, mod, depth, fn, *args, **kwargs)
            if last.ok or not isinstance(last.exc, RecursionError):
                break
            aborted += 1
            depth -= stride
            tb = last.exc.__traceback__
            while tb.tb_next is not None:
                tb = tb.tb_next
            if "_vw_call" != tb.tb_frame.f_code.co_name:
                inside += 1
            last.exc.__traceback__ = None
        if inside:
            self.probes["exhaust_scan_aborted_inside_the_call"] += inside
        if aborted:
            self.faults["exhaust_scan"] += 1
            self.probes["exhaust_scan_aborted_attempts"] += aborted
            self.fault_fired_before = True
        return aborted, last

    def scan_step(self, step: dict):
        """The swept exhaustion fault for a generic operation step: the same operation, issued
        from every stack depth at which it cannot complete, before the step itself runs."""
        import typelib

        op = step["op"]
        try:
            if op == "build":
                return self.scan_exhaust(step, getattr(typelib, step["kind"]), self.T(step))
            if op in ("marshal", "roundtrip") and step.get("t") is not None and not _one_shot(step["v"]):
                v = self.V(step["v"])
                if not _has_tag(step["v"], "$pend"):
                    # the step itself then converts this very object.  (Not for pendulum instances: their
                    # lazily computed attributes - Duration.hours sets itself to 0 before computing - are
                    # left half-initialised by a RecursionError inside pendulum, which is the third-party
                    # value's own state, not the library's.)
                    self.prebuilt[step.get("id")] = v
                return self.scan_exhaust(step, typelib.marshal, v, t=self.T(step))
            if op == "unmarshal" and not _one_shot(step["x"]):
                return self.scan_exhaust(step, typelib.unmarshal, self.T(step), self.V(step["x"]))
        except (ValueError, StopIteration, RuntimeError):
            return None  # the input itself cannot be built (a generated constructor refuses it)
        return None

    def T(self, step_or_t, mod=None):
        if "k" in step_or_t:
            return self.world.realize(step_or_t, mod or self.default_mod)
        return self.world.realize(step_or_t["t"], step_or_t.get("tmod") or step_or_t.get("mod") or self.default_mod,
                                  fresh=bool(step_or_t.get("fresh_t")))

    def trepr(self, step) -> str | None:
        """repr of the realised annotation: typing's own caches may hand back an equal
        object created earlier (other member order), which is Python's doing."""
        if isinstance(step.get("t"), dict):
            try:
                return repr(self.T(step))
            except Exception as e:  # noqa: BLE001
                return f"<{type(e).__name__}>"
        return None

    def V(self, vast):
        return model.build(vast, self.world)

    def guarded(self, fn, *args, **kwargs) -> Outcome:
        try:
            return Outcome(True, fn(*args, **kwargs))
        except RecursionError as e:
            self.probes["recursion_error_recovered"] += 1
            return Outcome(False, exc=e)
        except Exception as e:
            return Outcome(False, exc=e)

    # ------------------------------------------------------------------ violations
    def violation(self, oracle: str, step_index: int, detail: dict | None = None, sig: str | None = None):
        self.violations.append({
            "oracle": oracle,
            "step": step_index,
            "detail": detail or {},
            "sig": sig,
        })

    # ------------------------------------------------------------------ generic op execution
    def exec_op(self, i: int, step: dict) -> Outcome | None:
        """Execute one common operation.  Returns None for ops it does not know."""
        import typelib

        op = step["op"]
        sid = step.get("id", i)
        if op == "build":
            T = self.T(step)
            fn = getattr(typelib, step["kind"])
            out = self.guarded(self.call, step, fn, T)
            if out.ok:
                self.results[sid] = out.value
            return out
        if op == "marshal":
            v = self.prebuilt.pop(sid) if sid in self.prebuilt else self.V(step["v"])
            self.inputs[sid] = v
            if step.get("t") is None:
                out = self.guarded(self.call, step, typelib.marshal, v)
            else:
                out = self.guarded(self.call, step, typelib.marshal, v, t=self.T(step))
            if out.ok:
                self.results[sid] = out.value
            return out
        if op == "retry_repaired":
            # The caller submits an input whose innermost member is unconvertible (the call is
            # rightly refused), repairs that member *in place* and submits the very same object
            # again: whatever the refused call left behind (identity-keyed or not) must not matter.
            x = self.V(step["x"])
            inner = x
            for key in step["path"]:
                inner = inner[key]
            good = inner[step["field"]]
            inner[step["field"]] = self.V(step["bad"])
            T = self.T(step)
            first = self.guarded(self.call, step, typelib.unmarshal, T, x)
            inner[step["field"]] = good
            second = self.guarded(self.call, step, typelib.unmarshal, T, x)
            self.retry = (first, second)
            self.inputs[sid] = x
            if not first.ok:
                self.faults["refused_then_repaired"] += 1
                self.fault_fired_before = True
            if second.ok:
                self.results[sid] = second.value
            return second
        if op == "unmarshal":
            try:
                x = self.inputs[step["x_from"]] if step.get("x_from") in self.inputs else self.V(step["x"])
            except (ValueError, StopIteration, RuntimeError) as e:
                rejected = (isinstance(e, ValueError) and str(e) == "rejected") or isinstance(e, StopIteration) or \
                    (isinstance(e, RuntimeError) and isinstance(e.__cause__, StopIteration))
                if not rejected:
                    raise
                # the input itself is an instance a (generated) user constructor refuses to build
                self.probes["input_rejected_by_user_constructor"] += 1
                return Outcome(False, exc=e)
            self.inputs[sid] = x
            out = self.guarded(self.call, step, typelib.unmarshal, self.T(step), x)
            if out.ok:
                self.results[sid] = out.value
            return out
        if op in ("encode", "decode"):
            return self._exec_codec(sid, step)
        if op == "roundtrip":
            v = self.prebuilt.pop(sid) if sid in self.prebuilt else self.V(step["v"])
            self.inputs[sid] = v
            T = self.T(step)
            # (a causality experiment may ask for the two halves under two spellings of the type)
            Tm = self.world.realize(step["t_marshal"], step.get("mod")) if step.get("t_marshal") else T
            m = self.guarded(self.call, step, typelib.marshal, v, t=Tm)
            if not m.ok:
                return m
            self.results[("wire", sid)] = m.value
            for f in step.get("mid", ()):
                self.exec_fault(i, f)
            out = self.guarded(self.call, step, typelib.unmarshal, T, m.value)
            if out.ok:
                self.results[sid] = out.value
            return out
        if op == "call":
            x = self.V(step["x"])
            self.inputs[sid] = x
            handle = self.results.get(step.get("ref"))
            if handle is None or self.is_cold:
                T = self.T(step)
                b = self.guarded(self.call, step, getattr(typelib, step["kind"]), T)
                if not b.ok:
                    return b
                handle = b.value
            else:
                self.probes["stale_handle_used"] += 1 if self.stats["clears_fired"] else 0
            meth = step.get("method", "call")
            fn = handle if meth == "call" else getattr(handle, meth)
            out = self.guarded(self.call, step, fn, x)
            if out.ok:
                self.results[sid] = out.value
            return out
        return None

    def _peer(self, step):
        enc, dec = peers.pair(step.get("peer", "default"))
        fail = step.get("fail")
        if fail:
            from typelib.py import compat

            if fail["side"] == "enc":
                enc = peers.Failing(enc or compat.json.dumps, fail["k"])
            else:
                dec = peers.Failing(dec or compat.json.loads, fail["k"])
        return enc, dec

    def _exec_codec(self, sid, step) -> Outcome:
        import typelib
        from typelib.py import compat

        enc, dec = self._peer(step)
        T = self.T(step)
        via = step.get("via", "top")
        if step["op"] == "encode":
            v = self.V(step["v"])
            self.inputs[sid] = v
            if via == "top":
                kw = {"encoder": enc} if enc else {}
                out = self.guarded(self.call, step, typelib.encode, v, t=T, **kw)
            elif via == "codec":
                kw = {}
                if enc:
                    kw["encoder"] = enc
                if dec:
                    kw["decoder"] = dec

                def run():
                    return typelib.codec(T, **kw).encode(v)

                out = self.guarded(self.call, step, run)
            else:
                e = enc or compat.json.dumps

                def run():
                    return e(typelib.marshal(v, t=T))

                out = self.guarded(self.call, step, run)
        else:
            if "from" in step:
                x = self.results.get(step["from"])
                if x is None:
                    return Outcome(False, exc=LookupError("no source"))
            else:
                x = self.V(step["x"])
            self.inputs[sid] = x
            if via == "top":
                kw = {"decoder": dec} if dec else {}
                out = self.guarded(self.call, step, typelib.decode, T, x, **kw)
            elif via == "codec":
                kw = {}
                if enc:
                    kw["encoder"] = enc
                if dec:
                    kw["decoder"] = dec

                def run():
                    return typelib.codec(T, **kw).decode(x)

                out = self.guarded(self.call, step, run)
            else:
                d = dec or compat.json.loads

                def run():
                    return typelib.unmarshal(T, d(x))

                out = self.guarded(self.call, step, run)
        if out.ok:
            self.results[sid] = out.value
        return out

    # ------------------------------------------------------------------ faults
    def exec_fault(self, i: int, step: dict) -> bool:
        """Execute a fault operation.  Returns True if it *fired* (changed something)."""
        op = step["op"]
        fired = False
        if op == "clear":
            n = self.memos.clear(step.get("group", "all"))
            fired = n > 0
            if fired:
                self.stats["clears_fired"] += 1
        elif op == "clear_typing":
            seams.clear_typing_caches()
            # new, equal-but-not-identical typing objects from now on
            if self.world:
                self.world._tcache.clear()
            if getattr(self, "drop_refs_on_clear", False):
                # let the old annotation objects really die (a restart keeps nothing alive either):
                # whatever is keyed by their identity must not outlive them
                import gc

                self.results.clear()
                self.inputs.clear()
                self.outcomes.clear()
                gc.collect()
            fired = True
        elif op == "rewrite_slot":
            # the producer writes the next message into the slot the consumer's (read-only) view shows
            view = self.inputs.get(step["ref"])
            data = bytes.fromhex(step["hex"])
            if isinstance(view, memoryview) and len(data) == len(view) and hasattr(view.obj, "seek"):
                view.obj.seek(0)
                view.obj.write(data)
                fired = True
        elif op == "shrink":
            ok = seams.shrink_lru(step["name"], int(step["cap"]))
            if ok:
                self.memos = seams.Memos()
            fired = ok
        elif op == "mutate_result":
            tgt = self.results.get(step["ref"])
            fired = tgt is not None and model.deep_mutate(tgt, core.rng_for(self.seed, f"mut{i}")) > 0
        elif op == "mutate_input":
            tgt = self.inputs.get(step["ref"])
            fired = tgt is not None and model.deep_mutate(tgt, core.rng_for(self.seed, f"mut{i}")) > 0
        elif op == "clock":
            before = self.env["clock"][0] // 86400
            self.apply_env({"clock": [step["sec"], step.get("usec", 0)]})
            fired = (step["sec"] // 86400) != before
        elif op == "zone":
            fired = step["tz"] != self.env["tz"]
            self.apply_env({"tz": step["tz"]})
        elif op == "reclimit":
            fired = step["n"] != self.env["reclimit"]
            self.apply_env({"reclimit": step["n"]})
        else:
            return False
        if fired:
            self.faults[op] += 1
            self.fault_fired_before = True
        else:
            self.stats["faults_not_fired"] += 1
        return fired

    FAULT_OPS = ("clear", "clear_typing", "shrink", "mutate_result", "mutate_input", "clock", "zone", "reclimit", "rewrite_slot")

    # ------------------------------------------------------------------ step log
    def state_signature(self) -> str:
        sizes = self.memos.sizes()
        groups = collections.OrderedDict()
        for nm, n in sizes.items():
            g = "pred" if ".py.inspection." in nm else nm.rsplit(".", 1)[-1]
            groups[g] = min(3, groups.get(g, 0) + n)
        vec = ",".join(f"{g}{n}" for g, n in groups.items() if n)
        return f"{vec}|{self.env['tz']}|{self.env['clock'][0] // 86400 % 7}|{self.env['reclimit']}"

    def hits_total(self) -> int:
        return sum(o.cache_info().hits for _, o in self.memos.items)

    def log_step(self, *a, **kw):
        with model.headroom():  # harness-only code: deep inputs must not exhaust *its* stack
            return self._log_step(*a, **kw)

    def _log_step(self, i: int, step: dict, out: Outcome | None, *, nontrivial: bool | None = None,
                  comparable: bool = True, pre_sig: str = "", hit_delta: int = 0, unordered: bool | None = None):
        opd = core.digest({k: v for k, v in step.items() if k != "id"})
        if unordered is None:
            unordered = False
            for key in ("x", "v", "xs"):
                if key in step and _has_unordered_input(step[key]):
                    unordered = True
            if "t" in step and step["t"] is not None and "set" in self.kinds_of(step["t"]):
                unordered = True
        unordered_in = any(key in step and _has_unordered_input(step[key]) for key in ("x", "v", "xs"))
        tk = self.kinds_of(step.get("t"))
        top_unordered_into_ordered = any(
            isinstance(step.get(key), dict) and any(tag in step[key] and len(step[key][tag]) >= 2 for tag in ("$set", "$frozenset"))
            for key in ("x", "v")) and isinstance(step.get("t"), dict) and step["t"].get("k") not in model.SETLIKE
        if unordered and out is not None and ("union" in tk or (unordered_in and "set" not in tk) or top_unordered_into_ordered):
            # first-acceptor unions over an unordered input: which member accepts (or whether any
            # does) can depend on the set's iteration order, i.e. on the hash seed; the same holds for
            # an unordered input handed to an *ordered* target (a set enumerated into a list / mapping:
            # which element gets which index follows the iteration order)
            c = ["hash-relative"]
        else:
            c = out.canon(unordered=unordered) if out is not None else ["fault"]
        cj = core.jdump(c)
        self.chain.add(str(i), opd, cj)
        self.step_canons.append(core.digest(cj))
        self.cmp_mask.append(bool(comparable))
        self.stats["steps"] += 1
        kind = step["op"]
        self.bigrams.add(self._last_kind + ">" + kind)
        self._last_kind = kind
        if nontrivial is None:
            nontrivial = self.fault_fired_before or hit_delta > 0
        if out is not None and nontrivial:
            self.stats["steps_nontrivial"] += 1
            self.nontrivial.add(core.digest(opd + "|" + pre_sig))
        if pre_sig:
            self.state_sigs.add(core.digest(pre_sig))

    def kinds_of(self, t) -> set:
        """Coarse kinds ("union", "set") reachable from a type AST, following references
        into the declarations of the world."""
        if not isinstance(t, dict):
            return set()
        key = core.jdump(t)
        cache = self.__dict__.setdefault("_kinds", {})
        if key in cache:
            return cache[key]
        out: set = set()
        seen: set = set()
        todo = [t]
        while todo:
            cur = todo.pop()
            for n in model.twalk(cur):
                if n["k"] == "union":
                    out.add("union")
                elif n["k"] in model.SETLIKE:
                    out.add("set")
                elif (n["k"] == "ref" or (n["k"] == "fref" and n.get("m"))) and self.world is not None:
                    rk = (n["m"], n["n"] if n["k"] == "ref" else n["s"])
                    if rk in seen:
                        continue
                    seen.add(rk)
                    d = self.world.decls.get(rk)
                    if d is None:
                        continue
                    if "t" in d and isinstance(d["t"], dict):
                        todo.append(d["t"])
                    for f in d.get("fields", ()):
                        if isinstance(f.get("t"), dict):
                            todo.append(f["t"])
        cache[key] = out
        return out

    # ------------------------------------------------------------------ cold reference
    def cold_start(self):
        """Fork the cold server.  Must be called before any library call."""
        if self._cold is not None:
            return
        if self.memos.total() != 0:
            raise Abort("cold server requested after the library was used")
        req_r, req_w = os.pipe()
        res_r, res_w = os.pipe()
        pid = os.fork()
        if pid == 0:
            try:
                os.close(req_w)
                os.close(res_r)
                _cold_server(self, req_r, res_w)
            finally:
                os._exit(0)
        os.close(req_r)
        os.close(res_w)
        self._cold = (pid, os.fdopen(req_w, "w"), os.fdopen(res_r, "r"))

    def cold_exec(self, step: dict, env: dict | None = None, timeout: float = 20.0):
        """Run ``step`` alone in a fork of the pristine process; returns its canon."""
        if self._cold is None:
            raise Abort("cold server not started")
        pid, w, r = self._cold
        req = {"step": step, "env": env or dict(self.env)}
        w.write(json.dumps(req) + "\n")
        w.flush()
        ready, _, _ = select.select([r], [], [], timeout)
        if not ready:
            raise Abort("cold server timeout")
        line = r.readline()
        if not line:
            raise Abort("cold server died")
        self.stats["cold_forks"] += 1
        return json.loads(line)

    def cold_stop(self):
        if self._cold is None:
            return
        pid, w, r = self._cold
        try:
            w.close()
            r.close()
        except Exception:
            pass
        try:
            os.waitpid(pid, 0)
        except ChildProcessError:
            pass
        self._cold = None

    # ------------------------------------------------------------------ result
    def result(self) -> dict:
        return {
            "seed": self.seed,
            "digest": self.chain.hexdigest(),
            "steps": self.stats["steps"],
            "violations": self.violations,
            "stats": dict(self.stats),
            "faults": dict(self.faults),
            "probes": dict(self.probes),
            "nontrivial": sorted(self.nontrivial),
            "state_sigs": sorted(self.state_sigs),
            "bigrams": sorted(self.bigrams),
            "step_canons": self.step_canons,
            "cmp_mask": self.cmp_mask,
            "clock_span": [self.clock_min, self.clock_max],
            "clock_seam": self.clock.available,
            "clock_reads": self.clock.reads(),
        }


def _has_tag(v, tag: str) -> bool:
    stack = [v]
    while stack:
        x = stack.pop()
        if isinstance(x, dict):
            if tag in x:
                return True
            stack.extend(x.values())
        elif isinstance(x, list):
            stack.extend(x)
    return False


def _one_shot(v) -> bool:
    """Does the value AST hold a one-shot iterator anywhere (a scan would consume it)?"""
    stack = [v]
    while stack:
        x = stack.pop()
        if isinstance(x, dict):
            if "$gen" in x or "$iter" in x:
                return True
            stack.extend(x.values())
        elif isinstance(x, list):
            stack.extend(x)
    return False


def _cold_server(sess: Session, req_fd: int, res_fd: int):
    """Runs in a pristine fork: serves 'execute this one operation cold' requests by
    forking once more per request, so every request starts from cold memos."""
    signal.signal(signal.SIGINT, signal.SIG_DFL)
    rf = os.fdopen(req_fd, "r")
    for line in rf:
        req = json.loads(line)
        pid = os.fork()
        if pid == 0:
            code = 0
            try:
                sess.is_cold = True
                sess.apply_env(req["env"])
                step = req["step"]
                out = sess.exec_op(0, step)
                if out is None:
                    from . import props

                    out = props.get(sess.prop).exec_op(sess, 0, step)
                payload = {"canon": out.canon() if out is not None else None,
                           "canon_u": out.canon(unordered=True) if out is not None else None,
                           "trepr": sess.trepr(step)}
                os.write(res_fd, (json.dumps(payload) + "\n").encode())
            except BaseException as e:  # noqa: BLE001 - report, never hang the parent
                try:
                    os.write(res_fd, (json.dumps({"error": f"{type(e).__name__}: {e}"}) + "\n").encode())
                except Exception:
                    code = 3
            finally:
                os._exit(code)
        _, status = os.waitpid(pid, 0)
        if status != 0:
            os.write(res_fd, (json.dumps({"error": f"cold child status {status}"}) + "\n").encode())
