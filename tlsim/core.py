"""Seeds, digests and small shared helpers.  No library imports here."""

from __future__ import annotations

import hashlib
import json
import random

MASK = (1 << 64) - 1


def splitmix64(x: int) -> int:
    x = (x + 0x9E3779B97F4A7C15) & MASK
    z = x
    z = ((z ^ (z >> 30)) * 0xBF58476D1CE4E5B9) & MASK
    z = ((z ^ (z >> 27)) * 0x94D049BB133111EB) & MASK
    return z ^ (z >> 31)


def derive(base: int, prop: str, i: int) -> int:
    """Seed of run ``i`` of property ``prop`` under base seed ``base``."""
    h = int.from_bytes(hashlib.sha256(prop.encode()).digest()[:8], "big")
    return splitmix64(splitmix64(base & MASK) ^ splitmix64(h) ^ splitmix64(i + 0x51ED))


def rng_for(seed: int, stream: str = "") -> random.Random:
    """An independent PRNG stream derived from one run seed."""
    h = int.from_bytes(hashlib.sha256(stream.encode()).digest()[:8], "big")
    return random.Random(splitmix64(seed ^ h))


def jdump(obj) -> str:
    try:
        return json.dumps(obj, sort_keys=True, separators=(",", ":"), ensure_ascii=True)
    except RecursionError:
        # the C encoder has its own nesting limit; very deep values (C07) take the slow road
        import sys

        old = sys.getrecursionlimit()
        sys.setrecursionlimit(max(old, 400_000))
        try:
            return _pydump(obj)
        finally:
            sys.setrecursionlimit(old)


def _pydump(obj) -> str:
    if isinstance(obj, dict):
        return "{" + ",".join([json.dumps(str(k)) + ":" + _pydump(obj[k]) for k in sorted(obj, key=str)]) + "}"
    if isinstance(obj, (list, tuple)):
        return "[" + ",".join([_pydump(x) for x in obj]) + "]"
    return json.dumps(obj, ensure_ascii=True)


def digest(obj) -> str:
    if not isinstance(obj, str):
        obj = jdump(obj)
    return hashlib.sha256(obj.encode("utf-8", "surrogatepass")).hexdigest()[:16]


class Chain:
    """Chained digest over the step log of one run."""

    def __init__(self, seed: int):
        self.h = hashlib.sha256(str(seed).encode())
        self.n = 0

    def add(self, *parts: str) -> None:
        self.n += 1
        for p in parts:
            self.h.update(b"\x1f")
            self.h.update(p.encode("utf-8", "surrogatepass"))
        self.h.update(b"\x1e")

    def hexdigest(self) -> str:
        return self.h.hexdigest()[:24]


def weighted(rng: random.Random, table):
    """table: list of (weight, item)."""
    tot = sum(w for w, _ in table)
    x = rng.random() * tot
    for w, it in table:
        x -= w
        if x < 0:
            return it
    return table[-1][1]
