"""Worlds, type ASTs and value ASTs: rendering, loading, building, canonical forms.

A *world* is a JSON description of 1-3 generated modules.  A *type AST* (tyast) is a
JSON tree that renders to a Python expression which is evaluated inside a world
module.  A *value AST* (vast) is a JSON tree that builds one fresh Python value.
Nothing in this file calls the library.
"""

from __future__ import annotations

import collections
import contextlib
import dataclasses
import datetime
import decimal
import enum
import fractions
import pathlib
import re
import sys
import types
import uuid

from . import core

# --------------------------------------------------------------------------------------
# recursion headroom for the harness' own recursive helpers
# --------------------------------------------------------------------------------------


@contextlib.contextmanager
def headroom(limit: int = 200_000):
    old = sys.getrecursionlimit()
    if old < limit:
        sys.setrecursionlimit(limit)
    try:
        yield
    finally:
        sys.setrecursionlimit(old)


# --------------------------------------------------------------------------------------
# type ASTs -> source
# --------------------------------------------------------------------------------------

SCALARS = {
    "int": "int",
    "bool": "bool",
    "float": "float",
    "str": "str",
    "bytes": "bytes",
    "bytearray": "bytearray",
    "dec": "decimal.Decimal",
    "frac": "fractions.Fraction",
    "uuid": "uuid.UUID",
    "ppath": "pathlib.PurePosixPath",
    "purepath": "pathlib.PurePath",
    "path": "pathlib.Path",
    "pat": "re.Pattern",
    "date": "datetime.date",
    "dt": "datetime.datetime",
    "time": "datetime.time",
    "td": "datetime.timedelta",
    "none": "None",
    "any": "typing.Any",
    "object": "object",
}

# container kind -> (builtin spelling, typing spelling)
CONTAINERS1 = {
    "list": ("list", "typing.List"),
    "set": ("set", "typing.Set"),
    "frozenset": ("frozenset", "typing.FrozenSet"),
    "deque": ("collections.deque", "typing.Deque"),
    # abstract spellings: (collections.abc, typing)
    "Sequence": ("collections.abc.Sequence", "typing.Sequence"),
    "MutableSequence": ("collections.abc.MutableSequence", "typing.MutableSequence"),
    "Collection": ("collections.abc.Collection", "typing.Collection"),
    "Iterable": ("collections.abc.Iterable", "typing.Iterable"),
    "AbstractSet": ("collections.abc.Set", "typing.AbstractSet"),
    "MutableSet": ("collections.abc.MutableSet", "typing.MutableSet"),
}
CONTAINERS2 = {
    "dict": ("dict", "typing.Dict"),
    "Mapping": ("collections.abc.Mapping", "typing.Mapping"),
    "MutableMapping": ("collections.abc.MutableMapping", "typing.MutableMapping"),
}
SETLIKE = {"set", "frozenset", "AbstractSet", "MutableSet"}
LISTLIKE = {"list", "deque", "Sequence", "MutableSequence", "Collection", "Iterable"}


def tsrc(t: dict, mod: str | None = None) -> str:
    """Python expression for a type AST, valid inside world module ``mod``."""
    k = t["k"]
    if k in SCALARS:
        return SCALARS[k]
    if k == "lit":
        # (a member written {"$b": hex} is a bytes literal)
        return "typing.Literal[" + ", ".join(repr(bytes.fromhex(v["$b"]) if isinstance(v, dict) else v) for v in t["v"]) + "]"
    if k == "ref":
        return t["n"] if (mod is not None and t["m"] == mod) else f"{t['m']}.{t['n']}"
    if k in CONTAINERS1:
        sp = CONTAINERS1[k][1 if t.get("sp") == "typing" else 0]
        return f"{sp}[{tsrc(t['a'], mod)}]"
    if k in CONTAINERS2:
        sp = CONTAINERS2[k][1 if t.get("sp") == "typing" else 0]
        return f"{sp}[{tsrc(t['a'][0], mod)}, {tsrc(t['a'][1], mod)}]"
    if k == "tuplevar":
        sp = "typing.Tuple" if t.get("sp") == "typing" else "tuple"
        return f"{sp}[{tsrc(t['a'], mod)}, ...]"
    if k == "tuple":
        sp = "typing.Tuple" if t.get("sp") == "typing" else "tuple"
        return f"{sp}[" + ", ".join(tsrc(a, mod) for a in t["a"]) + "]"
    if k == "union":
        sp = t.get("sp", "typing")
        parts = [tsrc(a, mod) for a in t["a"]]
        if sp == "pipe":
            # a leading bare None cannot start a |-chain of two Nones; fine for our unions
            return "(" + " | ".join(parts) + ")"
        if sp == "optional" and len(parts) == 2 and t["a"][1]["k"] == "none":
            return f"typing.Optional[{parts[0]}]"
        return "typing.Union[" + ", ".join(parts) + "]"
    if k == "final":
        return f"typing.Final[{tsrc(t['a'], mod)}]"
    if k == "classvar":
        return f"typing.ClassVar[{tsrc(t['a'], mod)}]"
    if k == "sref":  # a string reference
        return repr(t["s"])
    if k == "fref":  # typing.ForwardRef(name, module=...)
        m = t.get("m")
        return f"typing.ForwardRef({t['s']!r}, module={m!r})" if m else f"typing.ForwardRef({t['s']!r})"
    if k == "bare":  # unparameterised generic / bare builtin (U+)
        return t["n"]
    if k == "raw":  # arbitrary expression (U+ corner cases)
        return t["src"]
    raise ValueError(f"unknown type kind {k!r}")


def tkey(t: dict) -> str:
    return core.jdump(t)


def twalk(t: dict):
    """Yield every node of a type AST."""
    yield t
    a = t.get("a")
    if isinstance(a, dict):
        yield from twalk(a)
    elif isinstance(a, list):
        for x in a:
            yield from twalk(x)


# --------------------------------------------------------------------------------------
# worlds
# --------------------------------------------------------------------------------------

PREAMBLE = (
    "import collections, collections.abc, dataclasses, datetime, decimal, enum\n"
    "import fractions, pathlib, re, typing, uuid\n"
    "\n"
    "def _vw_call(fn, args, kwargs, depth):\n"
    "    if depth:\n"
    "        return _vw_call(fn, args, kwargs, depth - 1)\n"
    "    return fn(*args, **kwargs)\n"
    "\n"
    "class _VwShadow:\n"
    "    pass\n"
    "\n"
    "def _vw_call_shadowed(fn, args, kwargs):\n"
    "    # a caller whose *local* names coincide with names of the world: a reference is resolved against\n"
    "    # the module it belongs to, never against the locals of whoever happens to issue the call\n"
    "    VwSame = Warning = VwLoc = VwD0 = VwD1 = VwD2 = VwD3 = VwD4 = VwE0 = VwE1 = VwR0 = VwR1 = _VwShadow\n"
    "    return fn(*args, **kwargs)\n"
    "\n"
)


def _lit_src(v) -> str:
    return repr(v)


def _ann_src(t: dict, mod: dict, defined: set, quote_all: bool) -> str:
    """Annotation source for a field.  In modules without the __future__ import,
    an annotation mentioning a name that is not defined yet is written as a string."""
    src = tsrc(t, mod["name"])
    if quote_all:
        return src
    for n in twalk(t):
        if n["k"] == "ref" and n["m"] == mod["name"] and n["n"] not in defined:
            return repr(src)
    return src


def render_decl(d: dict, mod: dict, defined: set) -> str:
    fut = bool(mod.get("future"))
    kind = d["d"]
    n = d["n"]
    out = []
    if kind == "enum":
        base = {
            "Enum": "enum.Enum",
            "IntEnum": "enum.IntEnum",
            "StrEnum": "enum.StrEnum",
            "intmix": "int, enum.Enum",
            "strmix": "str, enum.Enum",
        }[d["base"]]
        out.append(f"class {n}({base}):")
        for mn, mv in d["members"]:
            out.append(f"    {mn} = {_lit_src(mv)}")
    elif kind == "newtype":
        out.append(f"{n} = typing.NewType({n!r}, {tsrc(d['t'], mod['name'])})")
    elif kind == "alias":
        if d.get("stmt"):
            out.append(f"type {n} = {tsrc(d['t'], mod['name'])}")
        elif d.get("string"):
            out.append(f"{n} = typing.TypeAliasType({n!r}, {tsrc(d['t'], mod['name'])!r})")
        else:
            out.append(f"{n} = typing.TypeAliasType({n!r}, {tsrc(d['t'], mod['name'])})")
    elif kind == "dataclass":
        flags = d.get("flags", {})
        fl = ", ".join(f"{k}=True" for k in ("frozen", "slots", "kw_only", "order", "unsafe_hash") if flags.get(k))
        if flags.get("eq") is False:
            fl = (fl + ", " if fl else "") + "eq=False"
        out.append(f"@dataclasses.dataclass({fl})")
        base = f"({d['base']})" if d.get("base") else ""
        out.append(f"class {n}{base}:")
        own_fields = d["fields"][d.get("own_from", 0):]
        if not own_fields and not d.get("body"):
            out.append("    pass")
        for f in own_fields:
            ann = _ann_src(f["t"], mod, defined, fut)
            if "factory" in f:
                out.append(f"    {f['n']}: {ann} = dataclasses.field(default_factory={f['factory']})")
            elif "default" in f:
                out.append(f"    {f['n']}: {ann} = {_lit_src(f['default'])}")
            else:
                out.append(f"    {f['n']}: {ann}")
        for extra in d.get("body", ()):
            out.append("    " + extra)
    elif kind == "namedtuple":
        out.append(f"class {n}(typing.NamedTuple):")
        for f in d["fields"]:
            ann = _ann_src(f["t"], mod, defined, fut)
            if "default" in f:
                out.append(f"    {f['n']}: {ann} = {_lit_src(f['default'])}")
            else:
                out.append(f"    {f['n']}: {ann}")
    elif kind == "typeddict":
        tot = "" if d.get("total", True) else ", total=False"
        head = f"class {n}(typing.TypedDict{tot}):"
        if d.get("split"):
            # a base TypedDict of one totality, the class itself of the other
            bt = "" if d["base_total"] else ", total=False"
            ct = ", total=False" if d["base_total"] else ""
            out.append(f"class {n}__base(typing.TypedDict{bt}):")
            head = f"class {n}({n}__base{ct}):"
        else:
            out.append(head)
        for fi, f in enumerate(d["fields"]):
            if d.get("split") and fi == d["split"]:
                out.append(head)
            ann = tsrc(f["t"], mod["name"])
            if f.get("nr"):
                ann = f"typing.NotRequired[{ann}]"
            elif f.get("req"):
                ann = f"typing.Required[{ann}]"
            if not fut:
                for nn in twalk(f["t"]):
                    if nn["k"] == "ref" and nn["m"] == mod["name"] and nn["n"] not in defined:
                        ann = repr(ann)
                        break
            out.append(f"    {f['n']}: {ann}")
        if not d["fields"]:
            out.append("    pass")
    elif kind in ("plain", "slotsclass"):
        out.append(f"class {n}:")
        names = [f["n"] for f in d["fields"]]
        if kind == "slotsclass":
            out.append(f"    __slots__ = {tuple(names)!r}")
        for f in d["fields"]:
            if d.get("sigonly"):
                break  # the constructor's signature is the only place the member types are written
            out.append(f"    {f['n']}: {_ann_src(f['t'], mod, defined, fut)}")
        params = []
        for f in d["fields"]:
            ann = _ann_src(f["t"], mod, defined, fut)
            if "default" in f:
                params.append(f"{f['n']}: {ann} = {_lit_src(f['default'])}")
            else:
                params.append(f"{f['n']}: {ann}")
        reject = d.get("reject")
        out.append(f"    def __init__(self{''.join(', ' + p for p in params)}):")
        if reject and reject.get("exc") == "StopIteration":
            # the classic bare next() over a search that finds nothing
            out.append(f"        if {reject['n']} == {_lit_src(reject['v'])}: next(x for x in () if x)")
        elif reject:
            out.append(f"        if {reject['n']} == {_lit_src(reject['v'])}: raise ValueError('rejected')")
        for nm in names:
            out.append(f"        self.{nm} = {nm}")
        if not names and not reject:
            out.append("        pass")
        out.append("    def __eq__(self, other):")
        out.append("        return type(other) is type(self) and all(getattr(self, k) == getattr(other, k) for k in " + repr(tuple(names)) + ")")
        out.append("    __hash__ = None")
        out.append("    def __repr__(self):")
        out.append(f"        return '{n}(' + ', '.join(k + '=' + repr(getattr(self, k)) for k in " + repr(tuple(names)) + ") + ')'")
    elif kind == "raw":
        out.append(d["src"])
    else:
        raise ValueError(kind)
    if d.get("local"):
        # the class is created inside a function (a factory, a test, a closure) and bound to a
        # module attribute afterwards: its qualified name does not lead back to it
        body = ["    " + ln for ln in "\n".join(out).split("\n")]
        out = [f"def _vw_make_{n}():"] + body + [f"    return {n}", f"{n} = _vw_make_{n}()"]
    return "\n".join(out) + "\n"


def render_module(mod: dict) -> str:
    parts = []
    if mod.get("future"):
        parts.append("from __future__ import annotations\n")
    parts.append(PREAMBLE)
    defined: set = set()
    for d in mod["decls"]:
        parts.append(render_decl(d, mod, defined))
        defined.add(d["n"])
        parts.append("\n")
    return "".join(parts)


def render_world(world: dict) -> dict:
    """Attach rendered source to every module (stored verbatim in replay files)."""
    for mod in world["modules"]:
        if "src" not in mod:
            mod["src"] = render_module(mod)
    return world


class LoadedWorld:
    def __init__(self, world: dict):
        self.desc = world
        self.modules: dict[str, types.ModuleType] = {}
        self.decls: dict[tuple[str, str], dict] = {}
        render_world(world)
        for mod in world["modules"]:
            name = mod["name"]
            m = types.ModuleType(name)
            m.__file__ = f"<{name}>"
            sys.modules[name] = m
            self.modules[name] = m
        # every module can name the others (qualified references)
        for a in self.modules.values():
            for bn, b in self.modules.items():
                setattr(a, bn, b)
        for mod in world["modules"]:
            name = mod["name"]
            code = compile(mod["src"], f"<{name}>", "exec", dont_inherit=True)
            exec(code, self.modules[name].__dict__)
            for d in mod["decls"]:
                self.decls[(name, d["n"])] = d
        self._tcache: dict[tuple[str, str], object] = {}

    def reload(self):
        """Execute every module's source again in its own namespace (a hot reload): every class,
        NewType and alias of the world is a new object under the old name."""
        for mod in self.desc["modules"]:
            name = mod["name"]
            code = compile(mod["src"], f"<{name}>", "exec", dont_inherit=True)
            exec(code, self.modules[name].__dict__)
        self._tcache.clear()

    def realize(self, t: dict, mod: str | None = None, fresh: bool = False):
        """Evaluate a type AST inside a world module (default: the first one)."""
        mod = mod or self.desc["modules"][0]["name"]
        key = (mod, tkey(t))
        if not fresh and key in self._tcache:
            return self._tcache[key]
        obj = eval(tsrc(t, mod), self.modules[mod].__dict__)
        if not fresh:
            self._tcache[key] = obj  # (a fresh annotation belongs to its caller alone, and dies with the call)
        return obj

    def call(self, mod: str | None, depth: int, fn, *args, **kwargs):
        """Issue a call from a world module's frame at a chosen stack depth."""
        mod = mod or self.desc["modules"][0]["name"]
        return self.modules[mod]._vw_call(fn, args, kwargs, depth)

    def obj(self, mod: str, name: str):
        o = self.modules[mod]
        for part in name.split("."):
            o = getattr(o, part)
        return o

    def decl(self, mod: str, name: str) -> dict:
        return self.decls[(mod, name)]


# --------------------------------------------------------------------------------------
# value ASTs -> values
# --------------------------------------------------------------------------------------


def _tz(off_min):
    if off_min is None:
        return None
    if isinstance(off_min, str):
        # a rule-based zone (offset depends on the date; a bare time has no offset in it)
        import zoneinfo

        return zoneinfo.ZoneInfo(off_min)
    return datetime.timezone(datetime.timedelta(minutes=off_min))


def build(v, world: LoadedWorld | None = None):
    """Build one fresh Python value from a value AST."""
    with headroom():
        return _build(v, world)


_KEEP: list = []


def _build(v, w):
    if v is None or isinstance(v, (bool, int, str)):
        return v
    if isinstance(v, list):  # convenience: plain JSON list = python list
        return [_build(x, w) for x in v]
    if not isinstance(v, dict):
        raise ValueError(f"bad vast {v!r}")
    tag = next((k for k in v if k.startswith("$")), None)
    if tag is None:
        # plain JSON object = python dict with str keys
        return {k: _build(x, w) for k, x in v.items()}
    a = v[tag]
    if tag == "$f":
        return float(a)
    if tag == "$b":
        return bytes.fromhex(a)
    if tag == "$ba":
        return bytearray(bytes.fromhex(a))
    if tag == "$mv":
        return memoryview(bytes.fromhex(a))
    if tag == "$mvs":  # a window onto a larger read-only buffer (header + payload + trailer)
        body = bytes.fromhex(a)
        return memoryview(b"\x02LEN=0042;" + body + b";CRC=1f\x03")[10:10 + len(body)]
    if tag == "$mvro":  # a read-only view of a bytearray (unhashable exporter behind a read-only face)
        return memoryview(bytearray(bytes.fromhex(a))).toreadonly()
    if tag == "$mm":  # a read-only view of a shared mapping (a message slot): hashable, yet its content can change
        import mmap

        data = bytes.fromhex(a)
        mm = mmap.mmap(-1, max(1, len(data)))
        mm.write(data)
        _KEEP.append(mm)
        return memoryview(mm)[: len(data)].toreadonly()
    if tag == "$mvws":  # the same over a writable buffer
        body = bytes.fromhex(a)
        return memoryview(bytearray(b"\x02LEN=0042;" + body + b";CRC=1f\x03"))[10:10 + len(body)]
    if tag == "$mvw":
        return memoryview(bytearray(bytes.fromhex(a)))
    if tag == "$dec":
        return decimal.Decimal(a)
    if tag == "$fr":
        return fractions.Fraction(a[0], a[1])
    if tag == "$uuid":
        return uuid.UUID(hex=a)
    if tag == "$path":
        return getattr(pathlib, a[0])(a[1])
    if tag == "$re":
        return re.compile(a)
    if tag == "$d":
        return datetime.date(*a)
    if tag == "$dt":
        y, mo, d, H, M, S, us, off = a[:8]
        fold = a[8] if len(a) > 8 else 0
        return datetime.datetime(y, mo, d, H, M, S, us, tzinfo=_tz(off), fold=fold)
    if tag == "$t":
        H, M, S, us, off = a[:5]
        fold = a[5] if len(a) > 5 else 0
        return datetime.time(H, M, S, us, tzinfo=_tz(off), fold=fold)
    if tag == "$td":
        return datetime.timedelta(days=a[0], seconds=a[1], microseconds=a[2])
    if tag == "$enum":
        mod, name = a[0].split(".", 1)
        return w.obj(mod, name)[a[1]]
    if tag == "$list":
        return [_build(x, w) for x in a]
    if tag == "$tuple":
        return tuple(_build(x, w) for x in a)
    if tag == "$set":
        return {_build(x, w) for x in a}
    if tag == "$frozenset":
        return frozenset(_build(x, w) for x in a)
    if tag == "$deque":
        return collections.deque(_build(x, w) for x in a)
    if tag == "$dict":
        return {_build(k, w): _build(x, w) for k, x in a}
    if tag == "$ddict":  # a mapping whose __missing__ inserts (looking up an absent key changes it)
        return collections.defaultdict(list, [(_build(k, w), _build(x, w)) for k, x in a])
    if tag == "$odict":
        return collections.OrderedDict((_build(k, w), _build(x, w)) for k, x in a)
    if tag == "$obj":
        mod, name = a.split(".", 1)
        cls = w.obj(mod, name)
        return cls(**{k: _build(x, w) for k, x in v["f"].items()})
    if tag == "$nt":
        mod, name = a.split(".", 1)
        cls = w.obj(mod, name)
        return cls(**{k: _build(x, w) for k, x in v["f"].items()})
    if tag == "$chain":
        # a linked value given as a flat list of levels (outermost first): built iteratively, so
        # that histories with very deep values stay shallow JSON
        inner = None
        for lv in reversed(a):
            fields = {k: _build(x, w) for k, x in lv["f"].items()}
            ek = lv["edge"]
            if inner is None:
                if "terminal" in lv:
                    link = _build(lv["terminal"], w)
                else:
                    link = {"union": None, "list": [], "dict": {}, "tuplevar": ()}[ek]
                    link = link.copy() if hasattr(link, "copy") else link
            else:
                link = {"union": lambda y: y, "ref": lambda y: y, "list": lambda y: [y], "dict": lambda y: {"k": y}, "tuplevar": lambda y: (y,)}[ek](inner)
            fields[lv["edge_field"]] = link
            if lv["tag"] == "$dict":
                inner = fields
            else:
                mod, name = lv["cls"].split(".", 1)
                inner = w.obj(mod, name)(**fields)
        return inner
    if tag == "$twice":  # one object met at two positions of the input (shared sub-object)
        o = _build(a, w)
        return {"tuple": (o, o), "list": [o, o], "dict": {"first": o, "second": o}}[v.get("as", "tuple")]
    if tag == "$iter":  # one-shot iterator over the built elements
        return iter([_build(x, w) for x in a])
    if tag == "$gen":
        items = [_build(x, w) for x in a]
        return (x for x in items)
    if tag == "$pend":  # pendulum temporal subclass instances
        import pendulum

        kind, inner = a
        base = _build(inner, w)
        if kind == "dt":
            return pendulum.instance(base)
        if kind == "date":
            return pendulum.Date(base.year, base.month, base.day)
        if kind == "time":
            return pendulum.Time(base.hour, base.minute, base.second, base.microsecond, tzinfo=base.tzinfo)
        if kind == "td":
            return pendulum.duration(days=base.days, seconds=base.seconds, microseconds=base.microseconds)
    if tag == "$tsub":  # an instance of a user subclass of a datetime member (same value, another class)
        base = _build(a, w)
        if isinstance(base, datetime.datetime):
            return _DtSub(base.year, base.month, base.day, base.hour, base.minute, base.second, base.microsecond, tzinfo=base.tzinfo, fold=base.fold)
        if isinstance(base, datetime.date):
            return _DateSub(base.year, base.month, base.day)
        if isinstance(base, datetime.time):
            return _TimeSub(base.hour, base.minute, base.second, base.microsecond, tzinfo=base.tzinfo, fold=base.fold)
        return _TdSub(days=base.days, seconds=base.seconds, microseconds=base.microseconds)
    if tag == "$strsub":
        return _StrSub(a)
    if tag == "$intsub":
        return _IntSub(a)
    if tag == "$floatsub":
        return _FloatSub(float(a))
    if tag == "$type":  # a class object from the world
        mod, name = a.split(".", 1)
        return w.obj(mod, name)
    raise ValueError(f"unknown vast tag {tag!r}")


class _StrSub(str):
    """A str subclass instance (C06 subclass inputs)."""

    __slots__ = ()


class _IntSub(int):
    __slots__ = ()


class _DtSub(datetime.datetime):
    __slots__ = ()


class _DateSub(datetime.date):
    __slots__ = ()


class _TimeSub(datetime.time):
    __slots__ = ()


class _TdSub(datetime.timedelta):
    __slots__ = ()


class _FloatSub(float):
    __slots__ = ()


# --------------------------------------------------------------------------------------
# canonical forms
# --------------------------------------------------------------------------------------


def qn(cls) -> str:
    mod = getattr(cls, "__module__", "?")
    return f"{mod}.{getattr(cls, '__qualname__', getattr(cls, '__name__', '?'))}"


_ADDR = re.compile(r" at 0x[0-9a-fA-F]+")
_ADDR_B = re.compile(rb" at 0x[0-9a-fA-F]+")


def canon(x, *, unordered: bool = False):
    """Address-free, JSON-able rendering of any value or exception.

    ``unordered=True`` renders every sequence and mapping as a multiset; it is used
    for digests of steps whose outcome order legitimately depends on the hash seed.
    """
    with headroom():
        return _canon(x, unordered, [])


def _sorted_c(items):
    return sorted(items, key=core.jdump)


def _canon(x, un, path):
    if x is None:
        return None
    t = type(x)
    if t is bool:
        return ["bool", x]
    if t is int:
        return ["int", str(x)]
    if t is float:
        return ["float", repr(x)]
    if t is str:
        if un and "{" in x and "}" in x:
            # text that may be the print-out of a set (str(set) inside a container): order-free
            return ["text-multiset", "".join(sorted(x))]
        return ["str", _ADDR.sub(" at 0x?", x) if " at 0x" in x else x]
    if t is bytes:
        if b" at 0x" in x:
            x = _ADDR_B.sub(b" at 0x?", x)
        return ["bytes", x.hex()]
    if t is bytearray:
        return ["bytearray", bytes(x).hex()]
    if t is memoryview:
        return ["memoryview", x.tobytes().hex(), bool(x.readonly)]
    if isinstance(x, BaseException):
        if un:
            return ["exc"]
        return ["exc", t.__name__]
    if isinstance(x, enum.Enum):
        return ["enum", qn(t), x.name]
    if isinstance(x, decimal.Decimal):
        return [qn(t), str(x)]
    if isinstance(x, fractions.Fraction):
        return [qn(t), f"{x.numerator}/{x.denominator}"]
    if isinstance(x, uuid.UUID):
        return [qn(t), x.hex]
    if isinstance(x, pathlib.PurePath):
        return [qn(t), str(x)]
    if isinstance(x, re.Pattern):
        return ["re.Pattern", x.pattern if isinstance(x.pattern, str) else x.pattern.hex(), x.flags]
    if isinstance(x, datetime.datetime):
        off = _safe_offset(x)
        return [qn(t), x.year, x.month, x.day, x.hour, x.minute, x.second, x.microsecond, off]
    if isinstance(x, datetime.date):
        return [qn(t), x.year, x.month, x.day]
    if isinstance(x, datetime.time):
        off = _safe_offset(x)
        return [qn(t), x.hour, x.minute, x.second, x.microsecond, off]
    if isinstance(x, datetime.timedelta):
        return [qn(t), x.days, x.seconds, x.microseconds]
    if isinstance(x, (bool, int, float, str, bytes)):  # subclasses of primitives
        base = next(b for b in (bool, int, float, str, bytes) if isinstance(x, b))
        return ["sub", qn(t), _canon(base(x), un, path)]
    if isinstance(x, type):
        return ["class", qn(x)]
    if id(x) in path:
        return ["cycle"]
    path.append(id(x))
    try:
        if isinstance(x, tuple):
            items = [_canon(e, un, path) for e in x]
            if hasattr(t, "_fields"):
                return ["ntuple", qn(t), list(t._fields), items]
            return [qn(t) if t is not tuple else "tuple", _sorted_c(items) if un else items]
        if isinstance(x, (list, collections.deque)):
            items = [_canon(e, un, path) for e in x]
            name = "list" if t is list else ("deque" if t is collections.deque else qn(t))
            return [name, _sorted_c(items) if un else items]
        if isinstance(x, (set, frozenset)):
            name = "set" if t is set else ("frozenset" if t is frozenset else qn(t))
            return [name, _sorted_c([_canon(e, un, path) for e in x])]
        if isinstance(x, (dict, types.MappingProxyType)) or (
            isinstance(x, collections.abc.Mapping) and not dataclasses.is_dataclass(x)
        ):
            items = [[_canon(k, un, path), _canon(v, un, path)] for k, v in x.items()]
            name = "dict" if t is dict else qn(t)
            return [name, _sorted_c(items) if un else items]
        if dataclasses.is_dataclass(x):
            return ["obj", qn(t), [[f.name, _canon(getattr(x, f.name, _MISSING), un, path)]
                                   for f in dataclasses.fields(x)]]
        if t.__module__.startswith("vw"):
            names = list(getattr(t, "__annotations__", ()) or ())
            if not names:
                names = sorted(getattr(x, "__dict__", {}))
            return ["obj", qn(t), [[n, _canon(getattr(x, n, _MISSING), un, path)] for n in names]]
    finally:
        path.pop()
    tm = t.__module__
    if tm.startswith("typelib"):
        return ["lib", qn(t)]
    if tm in ("typing", "types") or isinstance(x, types.GenericAlias):
        return ["typing", _tstr(x)]
    if isinstance(x, collections.abc.Iterator):
        return ["iterator", qn(t)]
    return ["opaque", qn(t)]


def _safe_offset(x):
    """UTC offset in seconds; a tzinfo that cannot answer (a parser accepted '+25:00') is rendered, not raised."""
    try:
        off = x.utcoffset()
    except Exception as e:  # noqa: BLE001
        return f"<utcoffset raises {type(e).__name__}>"
    return None if off is None else off.total_seconds()


class _Missing:
    pass


_MISSING = _Missing()


def _tstr(x) -> str:
    try:
        return str(x)
    except Exception:  # pragma: no cover
        return qn(type(x))


def same(v, w) -> bool:
    """§3.8: equal with the same runtime classes at every position; dict and set
    content compared element-wise (order-insensitive for dicts and sets only)."""
    with headroom():
        return _canon_same(v, []) == _canon_same(w, [])


def _canon_same(x, path):
    # like _canon, but dict items sorted
    t = type(x)
    if isinstance(x, dict):
        if id(x) in path:
            return ["cycle"]
        path.append(id(x))
        try:
            items = [[_canon_same(k, path), _canon_same(v, path)] for k, v in x.items()]
        finally:
            path.pop()
        # (two OrderedDicts are equal only in the same order)
        return ["dict" if t is dict else qn(t), items if isinstance(x, collections.OrderedDict) else _sorted_c(items)]
    if isinstance(x, (list, tuple, collections.deque)) and not hasattr(t, "_fields"):
        if id(x) in path:
            return ["cycle"]
        path.append(id(x))
        try:
            items = [_canon_same(e, path) for e in x]
        finally:
            path.pop()
        return [qn(t), items]
    if isinstance(x, (set, frozenset)):
        return [qn(t), _sorted_c([_canon_same(e, path) for e in x])]
    if hasattr(t, "_fields") and isinstance(x, tuple):
        return ["ntuple", qn(t), [_canon_same(e, path) for e in x]]
    if dataclasses.is_dataclass(x) and not isinstance(x, type):
        if id(x) in path:
            return ["cycle"]
        path.append(id(x))
        try:
            return ["obj", qn(t), [[f.name, _canon_same(getattr(x, f.name, _MISSING), path)]
                                   for f in dataclasses.fields(x)]]
        finally:
            path.pop()
    if t.__module__.startswith("vw") and not isinstance(x, (enum.Enum, type)):
        names = list(getattr(t, "__annotations__", ()) or ()) or sorted(getattr(x, "__dict__", {}))
        if id(x) in path:
            return ["cycle"]
        path.append(id(x))
        try:
            return ["obj", qn(t), [[n, _canon_same(getattr(x, n, _MISSING), path)] for n in names]]
        finally:
            path.pop()
    return _canon(x, False, path)


def containers_in(x):
    """ids of every mutable container reachable from x (for aliasing oracles)."""
    out = {}
    with headroom():
        _containers(x, out, set())
    return out


_MUTABLE = (list, dict, set, bytearray, collections.deque)


def _containers(x, out, seen):
    if id(x) in seen:
        return
    if isinstance(x, (str, bytes, int, float, bool, type(None), enum.Enum, type)):
        return
    seen.add(id(x))
    if isinstance(x, _MUTABLE):
        out[id(x)] = x
    if isinstance(x, dict):
        for k, v in x.items():
            _containers(k, out, seen)
            _containers(v, out, seen)
    elif isinstance(x, (list, tuple, set, frozenset, collections.deque)):
        for e in x:
            _containers(e, out, seen)
    elif dataclasses.is_dataclass(x):
        for f in dataclasses.fields(x):
            _containers(getattr(x, f.name, None), out, seen)
    elif type(x).__module__.startswith("vw"):
        for n in list(getattr(type(x), "__annotations__", ()) or ()):
            _containers(getattr(x, n, None), out, seen)


def deep_mutate(x, rng) -> int:
    """Mutate every mutable container reachable from x in place.  Returns how many
    containers were touched (0 = the fault did not fire)."""
    touched = 0
    for c in list(containers_in(x).values()):
        try:
            if isinstance(c, list):
                c.append("VSIM-MUTATED")
                if len(c) > 1 and rng.random() < 0.5:
                    c[0] = "VSIM-MUTATED"
                touched += 1
            elif isinstance(c, collections.deque):
                c.append("VSIM-MUTATED")
                touched += 1
            elif isinstance(c, dict):
                for k in list(c):
                    if rng.random() < 0.5:
                        c[k] = "VSIM-MUTATED"
                c["VSIM-MUTATED"] = "VSIM-MUTATED"
                touched += 1
            elif isinstance(c, set):
                c.add("VSIM-MUTATED")
                touched += 1
            elif isinstance(c, bytearray):
                c[:] = b"\x00VSIM"
                touched += 1
        except Exception:
            pass
    return touched
