"""Self-tests of the simulator itself (never part of a registered check's verdict).

determinism: every seed is executed in templates with different PYTHONHASHSEED, at two pool
sizes, and once in a genuinely fresh interpreter (no fork, a third hash seed); all run digests
must be equal.  Any mismatch is a harness bug and blocks the checks (exit 2).
"""

from __future__ import annotations

import json
import os
import sys
import time

from . import core, orchestrator
from . import props as props_mod


def determinism(prop_ids, seeds_per_prop: int | None = None, fresh_per_prop: int = 3) -> int:
    orchestrator.ensure_built()
    base_seed = int(os.environ.get("VERIF_SEED", "20261004"))
    seeds_per_prop = seeds_per_prop or int(os.environ.get("SELFTEST_SEEDS", "120"))
    os.makedirs(os.path.join(orchestrator.VERIF, "build", "logs"), exist_ok=True)
    logpath = os.path.join(orchestrator.VERIF, "build", "logs", f"selftest-{os.getpid()}.log")
    bad = 0
    report = {}
    for pool_size in (4, 16):
        pool = orchestrator.Pool(pool_size, ["0", "12345", "1", "4242"], logpath)
        try:
            for pid in prop_ids:
                prop = props_mod.get(pid)
                t0 = time.time()
                want = {}
                n = 0
                for i in range(seeds_per_prop):
                    seed = core.derive(base_seed ^ 0x5E1F, pid, i)
                    for cls in range(4 if pool_size == 16 else 2):
                        pool.submit({"id": n, "mode": "gen-run", "prop": pid, "seed": seed, "tier": "quick", "replica": 0,
                                     "timeout": prop.RUN_TIMEOUT_S["quick"], "_i": i}, cls)
                        n += 1
                mism = []
                errs = 0
                for _ in range(n):
                    res = pool.results.get(timeout=300)
                    job = res.pop("_job")
                    if res.get("harness_error") or res.get("timeout"):
                        errs += 1
                        continue
                    d = want.setdefault(job["seed"], res["digest"])
                    if d != res["digest"]:
                        mism.append(job["seed"])
                key = f"{pid}@pool{pool_size}"
                report[key] = {"runs": n, "mismatching_seeds": sorted(set(mism))[:5], "errors": errs, "wall_s": round(time.time() - t0, 1)}
                if mism or errs:
                    bad += 1
                print(f"selftest-determinism {key}: runs={n} mismatches={len(set(mism))} errors={errs}")
                if pool_size == 16:
                    # fresh interpreters, a hash seed no template uses
                    fm = 0
                    for i in range(fresh_per_prop):
                        seed = core.derive(base_seed ^ 0x5E1F, pid, i)
                        fres = orchestrator.run_inline({"id": 0, "mode": "gen-run", "prop": pid, "seed": seed, "tier": "quick", "replica": 0}, "777")
                        if fres.get("harness_error") or fres.get("digest") != want.get(seed):
                            fm += 1
                    report[key]["fresh_interpreter_mismatches"] = fm
                    print(f"selftest-determinism {pid}@fresh-interpreter: runs={fresh_per_prop} mismatches={fm}")
                    if fm:
                        bad += 1
        finally:
            pool.close()
    with open(os.path.join(orchestrator.VERIF, "build", "selftest-determinism.json"), "w") as f:
        json.dump(report, f, indent=1)
    print("selftest-determinism:", "FAILED" if bad else "ok")
    return 2 if bad else 0
