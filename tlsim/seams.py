"""Seams the simulator owns: wall clock, time zone, memo contents, LRU capacity.

Everything here is reachable from outside the library: no source hooks.
"""

from __future__ import annotations

import ctypes
import functools
import gc
import os
import sys
import time

_LRU_TYPE = type(functools.lru_cache()(lambda: 0))

ZONES = (
    "UTC",
    "America/New_York",
    "Asia/Kolkata",
    "Pacific/Chatham",
    "Europe/London",
    "EST5EDT,M3.2.0,M11.1.0",
)

# Instants the clock fault jumps to (seconds since the epoch, UTC).
CLOCK_POINTS = (
    0,  # epoch
    946684799,  # 1999-12-31T23:59:59Z
    951782400,  # 2000-02-29T00:00:00Z
    2147483647,  # 2038-01-19T03:14:07Z
    4102444800,  # 2100-01-01
    1710054000,  # 2024-03-10T07:00:00Z (US DST start 02:00 EST)
    1730613600,  # 2024-11-03T06:00:00Z (US DST end)
    1711846800,  # 2024-03-31T01:00:00Z (EU DST start)
    1727531100,  # 2024-09-28T13:45Z  Chatham DST edge region
    1704067199,  # 2023-12-31T23:59:59Z
    1709251199,  # 2024-02-29T23:59:59Z
)


class Clock:
    """The wall clock, through the LD_PRELOAD shim."""

    def __init__(self):
        self.available = False
        self.lib = None
        try:
            lib = ctypes.CDLL(None)
            lib.vsim_present.restype = ctypes.c_int
            lib.vsim_set.argtypes = [ctypes.c_int64, ctypes.c_int64, ctypes.c_int]
            lib.vsim_read_count.restype = ctypes.c_uint64
            if lib.vsim_present() == 1:
                self.lib = lib
                self.available = True
        except (OSError, AttributeError):
            self.available = False
        self.now = None

    def set(self, sec: int, usec: int = 0) -> None:
        self.now = (sec, usec)
        if self.available:
            self.lib.vsim_set(sec, usec * 1000, 1)

    def reads(self) -> int:
        return int(self.lib.vsim_read_count()) if self.available else 0

    def release(self) -> None:
        if self.available:
            self.lib.vsim_set(0, 0, 0)


def set_zone(name: str) -> None:
    os.environ["TZ"] = name
    time.tzset()


class Memos:
    """Every functools memo that belongs to the library, in a stable order."""

    GROUPS = {
        "values": ("typelib.serdes.strload", "typelib.serdes.dateparse", "typelib.serdes.isoformat"),
        "routines": (
            "typelib.marshals.api.marshaller",
            "typelib.unmarshals.api.unmarshaller",
            "typelib.codecs.codec",
        ),
        "graph": ("typelib.graph.static_order",),
        "refs": ("typelib.py.refs._resolve_module_name",),
        "iter": ("typelib.serdes.get_items_iter",),
        "binding": ("typelib.binding._get_binding",),
    }

    def __init__(self, minimum: int = 60):
        found = {}
        names = sorted(m for m in sys.modules if m == "typelib" or m.startswith("typelib."))
        for mn in names:
            mod = sys.modules[mn]
            for an in sorted(vars(mod)):
                o = vars(mod)[an]
                if isinstance(o, _LRU_TYPE) and id(o) not in found:
                    found[id(o)] = (f"{mn}.{an}", o)
        extra = []
        for o in gc.get_objects():
            if isinstance(o, _LRU_TYPE) and id(o) not in found:
                if str(getattr(o, "__module__", "")).startswith("typelib"):
                    extra.append((f"{o.__module__}.{getattr(o, '__qualname__', '?')}#gc", o))
        extra.sort(key=lambda p: p[0])
        for nm, o in extra:
            found[id(o)] = (nm, o)
        self.items = sorted(found.values(), key=lambda p: p[0])
        self.by_name = {}
        for nm, o in self.items:
            self.by_name.setdefault(nm, o)
        if len(self.items) < minimum:
            raise RuntimeError(
                f"harness: only {len(self.items)} library memos found (expected >= {minimum})"
            )
        self.predicates = tuple(nm for nm, _ in self.items if ".py.inspection." in nm)

    def names(self):
        return [nm for nm, _ in self.items]

    def resolve_group(self, group: str):
        if group == "all":
            return self.names()
        if group == "predicates":
            return list(self.predicates)
        if group in self.GROUPS:
            # match by the final attribute name, private helper included (a repair may move a
            # memo from the public function to a private one: static_order -> _static_order)
            want = []
            for target in self.GROUPS[group]:
                mod, _, attr = target.rpartition(".")
                for nm, _o in self.items:
                    nmod, _, nattr = nm.rpartition(".")
                    if nattr.lstrip("_") == attr.lstrip("_") and (nmod == mod or nmod.startswith(mod.rsplit(".", 1)[0])):
                        if nm not in want:
                            want.append(nm)
            return want
        if group in self.by_name:
            return [group]
        return []

    def sizes(self, names=None):
        out = {}
        for nm, o in self.items:
            if names is None or nm in names:
                out[nm] = o.cache_info().currsize
        return out

    def total(self) -> int:
        return sum(o.cache_info().currsize for _, o in self.items)

    def clear(self, group: str) -> int:
        """Clear a group; returns how many entries were dropped (0 = fault did not fire)."""
        dropped = 0
        for nm in self.resolve_group(group):
            o = self.by_name[nm]
            dropped += o.cache_info().currsize
            o.cache_clear()
        return dropped

    def info(self, target: str):
        mod, _, attr = target.rpartition(".")
        o = getattr(sys.modules[mod], attr)
        return o.cache_info()


def clear_typing_caches() -> int:
    import typing

    n = 0
    for fn in list(getattr(typing, "_cleanups", ())):
        fn()
        n += 1
    return n


_BOUNDED = ("strload", "dateparse", "isoformat")


def shrink_lru(name: str, capacity: int) -> bool:
    """Re-create a bounded value memo of ``serdes`` with a small capacity.

    ``name`` selects the bounded LRU wrapper bound to a module attribute whose name
    contains it (``strload`` also finds a private ``_strload``).  All call sites go
    through the module attribute, so natural eviction simply happens sooner.  Returns
    False if no such memo exists (a legitimate repair may remove one)."""
    from typelib import serdes

    if name not in _BOUNDED:
        raise ValueError(name)
    for attr in sorted(vars(serdes)):
        cur = vars(serdes)[attr]
        if name in attr and isinstance(cur, _LRU_TYPE) and cur.cache_parameters().get("maxsize") is not None:
            inner = getattr(cur, "__wrapped__", None)
            if inner is None:
                continue
            setattr(serdes, attr, functools.lru_cache(maxsize=capacity)(inner))
            return True
    return False


def library_banner() -> dict:
    import typelib

    return {
        "typelib_file": os.path.dirname(typelib.__file__),
        "python": sys.version.split()[0],
        "hashseed": os.environ.get("PYTHONHASHSEED", ""),
    }
