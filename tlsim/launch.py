"""Entry point of template / inline interpreters.  Started as a *script* (never with
-m) by the orchestrator with a from-scratch environment."""

import json
import os
import sys

HERE = os.path.dirname(os.path.dirname(os.path.abspath(__file__)))
REPO_SRC = os.environ.get("TLSIM_REPO_SRC", "/repo/src")
sys.path.insert(0, HERE)
sys.path.insert(0, REPO_SRC)
sys.dont_write_bytecode = True

from tlsim import worker  # noqa: E402


def main():
    mode = sys.argv[1] if len(sys.argv) > 1 else "serve"
    import typelib

    got = os.path.realpath(os.path.dirname(typelib.__file__))
    want = os.path.realpath(os.path.join(REPO_SRC, "typelib"))
    if got != want:
        sys.stderr.write(f"harness: library imported from {got}, expected {want}\n")
        sys.exit(3)
    if mode == "serve":
        worker.serve()
    elif mode == "inline":
        job = json.loads(sys.stdin.read())
        res = worker.replay_inline(job)
        res["hashseed"] = os.environ.get("PYTHONHASHSEED", "")
        sys.stdout.write(json.dumps(res) + "\n")
    else:
        sys.exit(f"unknown mode {mode}")


if __name__ == "__main__":
    main()
