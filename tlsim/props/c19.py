"""C19 - slotted dataclasses behave like the original dataclass (twin model)."""

from __future__ import annotations

import copy
import os
import pickle
import weakref

from .. import core, hist, model
from ..session import Outcome
from . import PropBase, steps_with_ids

FTYPES = ["int", "str", "list", "dict", "typing.Optional[int]", "tuple"]


def _field(rng, name):
    t = rng.choice(FTYPES)
    f = {"n": name, "t": {"k": "raw", "src": t}}
    r = rng.random()
    if r < 0.35:
        if t == "int":
            f["default"] = rng.choice([0, 5, -1])
        elif t == "str":
            f["default"] = rng.choice(["", "d"])
        elif t == "typing.Optional[int]":
            f["default"] = None
        elif t == "tuple":
            f["default"] = ()
        elif t == "list":
            f["factory"] = "list"
        elif t == "dict":
            f["factory"] = "dict"
    return f


def _order_fields(fields):
    # dataclass rule: no non-default after default (within one class)
    nd = [f for f in fields if "default" not in f and "factory" not in f]
    d = [f for f in fields if "default" in f or "factory" in f]
    return nd + d


def _gen_class(rng, name, base=None, base_has_defaults=False, taken=(), redeclare=None):
    pool = [n for n in ["a", "b", "c", "x", "y", "items", "name", "_p", "q", "r", "s", "t", "u", "w"] if n not in taken]
    nf = min(rng.randint(0, 5), len(pool))
    names = rng.sample(pool, nf)
    fields = _order_fields([_field(rng, n) for n in names])
    if base_has_defaults:
        for f in fields:
            if "default" not in f and "factory" not in f:
                f["default"] = None
                f["t"] = {"k": "raw", "src": "typing.Any"}
    flags = {}
    r = rng.random()
    if r < 0.3:
        flags["frozen"] = True
    if rng.random() < 0.2:
        flags["order"] = True
    if rng.random() < 0.15:
        flags["unsafe_hash"] = True
    if rng.random() < 0.1 and not flags.get("order"):
        flags["eq"] = False
    if redeclare is not None:
        # re-declare an inherited field (it keeps its place in the signature) with another plain default
        t = redeclare["t"]["src"]
        nd = {"int": 9, "str": "re", "typing.Optional[int]": 3}.get(t)
        if nd is not None:
            fields.append({"n": redeclare["n"], "t": redeclare["t"], "default": nd})
    d = {"d": "dataclass", "n": name, "fields": fields, "flags": flags}
    if base:
        d["base"] = base
    body = []
    if rng.random() < 0.15:
        # user-defined pickling protocol: must be preserved
        shape = rng.choice(["dict", "tuple", "renamed", "versioned"])
        if shape == "dict":
            body.append("def __getstate__(self): return {f.name: getattr(self, f.name) for f in dataclasses.fields(self)}")
            body.append("def __setstate__(self, st):\n        for k, v in st.items(): object.__setattr__(self, k, v)")
        elif shape == "tuple":
            # positional state: only the user's own __setstate__ can read it back
            body.append("def __getstate__(self): return tuple(getattr(self, f.name) for f in dataclasses.fields(self))")
            body.append("def __setstate__(self, st):\n        for f, v in zip(dataclasses.fields(self), st): object.__setattr__(self, f.name, v)")
        elif shape == "renamed":
            body.append("def __getstate__(self): return {'f_' + f.name: getattr(self, f.name) for f in dataclasses.fields(self)}")
            body.append("def __setstate__(self, st):\n        for k, v in st.items(): object.__setattr__(self, k[2:], v)")
        else:
            body.append("def __getstate__(self): return (1, {f.name: getattr(self, f.name) for f in dataclasses.fields(self)})")
            body.append("def __setstate__(self, st):\n        for k, v in st[1].items(): object.__setattr__(self, k, v)")
    if rng.random() < 0.15:
        body.append("def double(self): return 2")
        body.append("KONST = 7")
    if rng.random() < 0.1:
        body.append("def __post_init__(self): object.__setattr__(self, 'post', 1) if hasattr(type(self), '__dict__') and '__dict__' in dir(self) else None")
        body.pop()  # keep __post_init__ out: setting undeclared attributes is not slot-compatible by design
    if rng.random() < 0.2:
        # pseudo-fields: a class variable is no field at all, an init-only variable is a constructor argument only
        body.append("KVAR: typing.ClassVar[int] = 11")
        if rng.random() < 0.5:
            body.append("ivar: dataclasses.InitVar[int] = 5")
            body.append("def __post_init__(self, ivar): type(self).KVAR + ivar")
            d["initvar"] = True
    d["body"] = body
    return d


BAD = (
    "class VwBadPlain:\n    x: int = 0\n",
    "class VwMeta(type):\n    made = 0\n    def __new__(mcs, name, bases, ns):\n        VwMeta.made += 1\n        if VwMeta.made > 1:\n            raise RuntimeError('metaclass refuses re-creation')\n        return super().__new__(mcs, name, bases, ns)\n"
    "@dataclasses.dataclass\nclass VwBadMeta(metaclass=VwMeta):\n    x: int = 0\n",
    # classes made in a factory share one repr: <class 'vw0.vw_factory.<locals>.VwLocal'>
    "def vw_factory(kind, default='y', frozen=False):\n    if kind == 'bad':\n        class VwLocal:\n            x: int = 0\n        return VwLocal\n"
    "    @dataclasses.dataclass(frozen=frozen)\n    class VwLocal:\n        x: int = 0\n        y: str = default\n    return VwLocal\n",
)


def _arg(rng, f):
    t = f["t"]["src"]
    if t == "int":
        return rng.choice([0, 1, -3, 2**40])
    if t == "str":
        return rng.choice(["", "s", "éx"])
    if t == "list":
        return {"$list": [rng.randint(0, 3) for _ in range(rng.randint(0, 3))]}
    if t == "dict":
        return {"$dict": [["k", rng.randint(0, 3)]]} if rng.random() < 0.7 else {"$dict": []}
    if t == "tuple":
        return {"$tuple": [1, "a"]} if rng.random() < 0.5 else {"$tuple": []}
    return rng.choice([None, 4])


class C19(PropBase):
    ID = "C19"
    QUICK_RUNS = 3000
    THOROUGH_RUNS = 150000
    QUICK_BUDGET_S = 45
    THOROUGH_BUDGET_S = 420
    FAULT_KINDS = ("bad_decoration", "clear", "repeat_name")
    RULE = (
        "A case is one operation of a seeded decoration history over generated dataclasses (0-5 fields, defaults/factories, "
        "frozen/eq/order/unsafe_hash, single inheritance from slotted and unslotted bases, user __getstate__/__setstate__): "
        "decorate with slotted(dict=,weakref=), a decoration that fails naturally (not a dataclass, raising metaclass, factory "
        "classes sharing one repr), or a behavioural comparison of slotted(C) with its undecorated twin C (construction incl. "
        "errors, ==, hash, repr, ordering, copy, deepcopy, pickle round trip, frozen-ness, defaults, slot layout). Non-trivial: "
        "the operation follows a failed decoration, a decoration of a same-named class, or compares a class with a base; "
        "distinct = distinct (operation digest, decoration-history digest) pairs."
        ' Subclasses may re-declare an inherited field with another default; user state protocols come in dict, tuple, renamed-key and versioned shapes.'
    )
    ASSUMPTIONS = ["pickling binds the class under test to its module attribute for the duration of the round trip, as the decorator's use as `@slotted` does",
                   "classes whose __post_init__ sets undeclared attributes are outside the statement (slots forbid them by design)"]

    def gen(self, seed, tier):
        rng = core.rng_for(seed, "gen")
        sw = hist.swarm(rng, self.FAULT_KINDS, fault_free_p=0.3)
        ncls = rng.randint(1, 4)
        decls = []
        classes = []
        for i in range(ncls):
            base = None
            bhd = False
            if classes and rng.random() < 0.5:
                # (chains: the class declared last is the likeliest base, so Grand <- Parent <- Child occurs)
                b = classes[-1] if rng.random() < 0.6 else rng.choice(classes)
                base = b["n"]
                bhd = any("default" in f or "factory" in f for f in b["all_fields"]) or bool(b.get("initvar_any"))
                if b["flags"].get("frozen") or rng.random() < 0.0:
                    pass
            taken = [f["n"] for f in next(c for c in classes if c["n"] == base)["all_fields"]] if base else ()
            red = None
            if base and rng.random() < 0.3:
                cands = [f for f in next(c for c in classes if c["n"] == base)["all_fields"] if "default" in f and f["t"]["src"] in ("int", "str", "typing.Optional[int]")]
                red = rng.choice(cands) if cands else None
            d = _gen_class(rng, f"VwC{i}", base, bhd, taken, red)
            if base:
                b = next(c for c in classes if c["n"] == base)
                # frozen-ness must match the base (dataclass rule)
                if b["flags"].get("frozen"):
                    d["flags"]["frozen"] = True
                else:
                    d["flags"].pop("frozen", None)
                own = [f["n"] for f in d["fields"]]
                d["all_fields"] = [f for f in b["all_fields"] if f["n"] not in own] + d["fields"]
            else:
                d["all_fields"] = list(d["fields"])
            d["initvar_any"] = bool(d.get("initvar") or (base and next(c for c in classes if c["n"] == base).get("initvar_any")))
            classes.append(d)
        # slotted bases are created by decorating inside the module source (history op) - keep twins raw
        for d in classes:
            dd = {k: v for k, v in d.items() if k not in ("all_fields", "initvar", "initvar_any")}
            decls.append(dd)
        for j, src in enumerate(BAD):
            decls.append({"d": "raw", "n": ["VwBadPlain", "VwBadMeta", "vw_factory"][j], "src": src})
        world = {"modules": [{"name": "vw0", "future": rng.random() < 0.5, "decls": decls}]}
        steps = []
        n = rng.randint(2, 14 if tier == "quick" else 40)
        slotted_known = []

        def mk_cmp(c):
            kw, kw2 = {}, {}
            for f in c["all_fields"]:
                has_d = "default" in f or "factory" in f
                if not has_d or rng.random() < 0.6:
                    kw[f["n"]] = _arg(rng, f)
                if not has_d or rng.random() < 0.6:
                    kw2[f["n"]] = _arg(rng, f) if rng.random() < 0.5 else kw.get(f["n"], _arg(rng, f))
            return {"op": "cmp", "cls": c["n"], "kw": kw, "kw2": kw2}

        # a whole line of descent decorated from the top down, each class rebuilt on its slotted base
        by_name = {c["n"]: c for c in classes}
        line = max(([c] for c in classes), key=len)
        for c in classes:
            cur, ln = c, [c]
            while cur.get("base"):
                cur = by_name[cur["base"]]
                ln.insert(0, cur)
            if len(ln) > len(line):
                line = ln
        if len(line) >= 3 and rng.random() < 0.5:
            for c in line:
                steps.append({"op": "slot", "cls": c["n"], "dict": rng.random() < 0.2, "weakref": rng.random() < 0.3, "rebase": True})
                slotted_known.append(c["n"])
            steps.append(mk_cmp(line[-1]))
        while len(steps) < n:
            r = rng.random()
            if sw.get("bad_decoration") and r < 0.15:
                steps.append({"op": "slot_bad", "what": rng.choice(["plain", "meta", "factory-bad"])})
                continue
            if sw.get("repeat_name") and r < 0.25:
                steps.append({"op": "slot_factory", "dict": rng.random() < 0.3, "weakref": rng.random() < 0.5,
                              "default": rng.choice(["y", "y", "other", ""]), "frozen": rng.random() < 0.3})
                continue
            if sw.get("clear") and r < 0.3:
                steps.append({"op": "clear", "group": "all"})
                continue
            c = rng.choice(classes)
            if r < 0.6 or not slotted_known:
                steps.append({"op": "slot", "cls": c["n"], "dict": rng.random() < 0.3, "weakref": rng.random() < 0.5,
                              "rebase": rng.random() < 0.5})
                if c["n"] in slotted_known and rng.random() < 0.4:
                    # the class that is already slotted is decorated once more (it is a dataclass like any other)
                    steps[-1]["again"] = True
                if rng.random() < 0.4:
                    # `slots = slotted(dict=.., weakref=..)` made once and applied to class after class
                    steps[-1]["shared_deco"] = True
                slotted_known.append(c["n"])
            else:
                pick = rng.choice(slotted_known)
                c = next(x for x in classes if x["n"] == pick)
                kw, kw2 = {}, {}
                for f in c["all_fields"]:
                    has_d = "default" in f or "factory" in f
                    if not has_d or rng.random() < 0.6:
                        kw[f["n"]] = _arg(rng, f)
                    if not has_d or rng.random() < 0.6:
                        kw2[f["n"]] = _arg(rng, f) if rng.random() < 0.5 else kw.get(f["n"], _arg(rng, f))
                if rng.random() < 0.08 and kw:
                    kw.pop(sorted(kw)[0])  # a construction error: must be the same error for both
                if rng.random() < 0.05:
                    kw["nosuchfield"] = 1
                steps.append({"op": "cmp", "cls": c["n"], "kw": kw, "kw2": kw2})
        return {"prop": self.ID, "seed": seed, "tier": tier, "world": world, "env": self.base_env(rng, fault_free=True),
                "steps": steps_with_ids(steps), "meta": {"swarm": sw}}

    # ------------------------------------------------------------------ execution
    def pre_run(self, sess):
        sess.slotted = {}  # name -> (slotted class, flags)
        sess.decolog = []
        sess.decos = {}

    def exec_op(self, sess, i, step):
        from typelib.py import classes as tlc

        op = step["op"]
        mod = sess.world.modules["vw0"]
        if op == "slot":
            twin = getattr(mod, "_twin_" + step["cls"], None) or getattr(mod, step["cls"])
            setattr(mod, "_twin_" + step["cls"], twin)
            target = twin
            if step.get("rebase") and twin.__bases__ != (object,):
                # decorate a subclass whose base has itself been slotted: rebuild the twin on the slotted base
                bname = twin.__bases__[0].__name__
                if bname in sess.slotted:
                    target = _rebuild_on(twin, sess.slotted[bname][0])
            if step.get("again") and step["cls"] in sess.slotted:
                target = sess.slotted[step["cls"]][0]
                twin = sess.slotted[step["cls"]][2]
                sess.probes["decorated_an_already_slotted_class"] += 1
            else:
                twin = target
            if step.get("shared_deco"):
                dk = (step["dict"], step["weakref"])
                if dk not in sess.decos:
                    sess.decos[dk] = tlc.slotted(dict=step["dict"], weakref=step["weakref"])
                else:
                    sess.probes["decorator_object_reused"] += 1
                out = sess.guarded(sess.call, step, sess.decos[dk], target)
            else:
                out = sess.guarded(sess.call, step, tlc.slotted, target, dict=step["dict"], weakref=step["weakref"])
            sess.decolog.append(("slot", step["cls"], out.ok))
            if out.ok:
                sess.slotted[step["cls"]] = (out.value, dict(dict=step["dict"], weakref=step["weakref"]), twin)
            return Outcome(out.ok, ["slotted", step["cls"]] if out.ok else None, out.exc)
        if op == "slot_bad":
            if step["what"] == "plain":
                target = mod.VwBadPlain
            elif step["what"] == "meta":
                target = mod.VwBadMeta
            else:
                target = mod.vw_factory("bad")
            out = sess.guarded(sess.call, step, tlc.slotted, target)
            if not out.ok:
                sess.faults["bad_decoration"] += 1
                sess.fault_fired_before = True
            sess.decolog.append(("bad", step["what"], out.ok))
            return Outcome(out.ok, "decorated" if out.ok else None, out.exc)
        if op == "slot_factory":
            target = mod.vw_factory("good", step.get("default", "y"), bool(step.get("frozen")))
            out = sess.guarded(sess.call, step, tlc.slotted, target, dict=step["dict"], weakref=step["weakref"])
            if out.ok:
                # same-named classes are different classes: each product keeps its own defaults and flags
                sess.__dict__.setdefault("_c19_keep", []).append(out.value)  # (earlier products stay alive)
                got = _try(lambda: [out.value().y, out.value.__dataclass_params__.frozen, out.value is not target,
                                    sum(1 for k in sess._c19_keep if k is out.value), out.value.__qualname__, out.value.__module__, repr(out.value(3))])
                want = ("ok", [step.get("default", "y"), bool(step.get("frozen")), True, 1, target.__qualname__, target.__module__, repr(target(3))])
                if got != want:
                    sess.violation("twin-mismatch", i, {"aspect": "factory-product", "slotted": _r(got), "twin": _r(want)}, sig="twin-mismatch:factory-product")
            sess.decolog.append(("factory", "good", out.ok))
            if any(k == "factory" or (k == "bad" and w == "factory-bad") for k, w, _ in sess.decolog[:-1]):
                sess.faults["repeat_name"] += 1
                sess.fault_fired_before = True
            if out.ok:
                sess.slotted["<factory>"] = (out.value, dict(dict=step["dict"], weakref=step["weakref"]), target)
            return Outcome(out.ok, "decorated" if out.ok else None, out.exc)
        if op == "cmp":
            if step["cls"] not in sess.slotted:
                return Outcome(True, "not-decorated")
            return Outcome(True, self._compare(sess, i, step))
        return None

    def nontrivial(self, sess, i, step, out, hit_delta):
        if step["op"] not in ("slot", "slot_factory", "cmp"):
            return False
        prior = sess.decolog[:-1] if step["op"] != "cmp" else sess.decolog
        return any(not ok for _, _, ok in prior) or any(k == "factory" for k, _, _ in prior) or bool(step.get("rebase")) or step["op"] == "cmp"

    def check(self, sess, i, step, out):
        op = step["op"]
        hist_d = core.digest(core.jdump(sess.decolog))
        if op in ("slot", "slot_factory", "cmp"):
            sess.nontrivial.add(core.digest(core.jdump([{k: v for k, v in step.items() if k != "id"}, hist_d])))
        if op in ("slot", "slot_factory") and not out.ok:
            prior_bad = any(not ok for _, _, ok in sess.decolog[:-1])
            sess.violation("decoration-raised", i, {"exc": f"{type(out.exc).__name__}: {out.exc}"[:300], "after_failed_decoration": prior_bad},
                           sig=f"decoration-raised:{type(out.exc).__name__}:{'after-failure' if prior_bad else 'clean'}")
        if op == "cmp" and out.ok and isinstance(out.value, list) and out.value:
            for diff in out.value[:3]:
                sess.violation("twin-mismatch", i, diff, sig="twin-mismatch:" + diff["aspect"])

    # ------------------------------------------------------------------ twin comparison
    def _compare(self, sess, i, step):
        mod = sess.world.modules["vw0"]
        S, flags, T = sess.slotted[step["cls"]]
        diffs = []
        kw = {k: sess.V(v) for k, v in step["kw"].items()}
        kw2 = {k: sess.V(v) for k, v in step["kw2"].items()}

        def both(aspect, fs, ft, cmp=None):
            a = _try(fs)
            b = _try(ft)
            same = (a[0] == b[0]) and (cmp(a[1], b[1]) if (cmp and a[0] == "ok") else a[1] == b[1])
            if not same:
                if aspect == "hash-value":  # hash values depend on the hash seed: never log them
                    a, b = (a[0], "<hash>" if a[0] == "ok" else a[1]), (b[0], "<hash>" if b[0] == "ok" else b[1])
                diffs.append({"aspect": aspect, "slotted": _r(a), "twin": _r(b)})
            return a, b

        (sa, s1), (ta, t1) = both("construct", lambda: S(**copy.deepcopy(kw)), lambda: T(**copy.deepcopy(kw)),
                                  cmp=lambda x, y: _fields(x) == _fields(y))
        if sa != "ok" or ta != "ok":
            return diffs
        (sb, s2), (tb, t2) = both("construct", lambda: S(**copy.deepcopy(kw2)), lambda: T(**copy.deepcopy(kw2)),
                                  cmp=lambda x, y: _fields(x) == _fields(y))
        both("repr", lambda: repr(s1), lambda: repr(t1))
        # hashability, and agreement of hash with ==: never the numeric value (id-based for eq=False)
        both("hash", lambda: [hash(s1) == hash(S(**copy.deepcopy(kw))), s1 == S(**copy.deepcopy(kw))],
             lambda: [hash(t1) == hash(T(**copy.deepcopy(kw))), t1 == T(**copy.deepcopy(kw))])
        if T.__dataclass_params__.eq:
            both("hash-value", lambda: hash(s1), lambda: hash(t1), cmp=lambda x, y: x == y)
        both("eq-self", lambda: s1 == S(**copy.deepcopy(kw)), lambda: t1 == T(**copy.deepcopy(kw)))
        if sb == "ok" and tb == "ok":
            both("eq-other", lambda: s1 == s2, lambda: t1 == t2)
            both("order", lambda: s1 < s2, lambda: t1 < t2)
            both("order", lambda: s1 >= s2, lambda: t1 >= t2)
        both("copy", lambda: _fields(copy.copy(s1)), lambda: _fields(copy.copy(t1)))
        both("copy-class", lambda: type(copy.copy(s1)) is S, lambda: type(copy.copy(t1)) is T)
        both("deepcopy", lambda: _fields(copy.deepcopy(s1)), lambda: _fields(copy.deepcopy(t1)))
        if hasattr(s1, "__dict__"):
            # an instance dictionary that holds something (a cached property, an attribute set after
            # construction): the copy gets a dictionary of its own, as a dataclass copy does
            both("copy-owns-its-dict", lambda: _copy_dict_probe(s1), lambda: _copy_dict_probe(t1))
            both("deepcopy-owns-its-dict", lambda: _copy_dict_probe(s1, copy.deepcopy), lambda: _copy_dict_probe(t1, copy.deepcopy))
        name = T.__qualname__
        if "<locals>" not in name:
            for proto in (2, pickle.HIGHEST_PROTOCOL):
                def rt(cls, inst, proto=proto):
                    old = getattr(mod, name, None)
                    setattr(mod, name, cls)
                    try:
                        back = pickle.loads(pickle.dumps(inst, protocol=proto))
                        return [type(back) is cls, _fields(back)]
                    finally:
                        setattr(mod, name, old)
                both(f"pickle-{proto}", lambda: rt(S, s1), lambda: rt(T, t1))
        # frozen-ness and attribute assignment of a declared field
        fl = [f.name for f in __import__("dataclasses").fields(T)]
        if fl:
            both("setattr-field", lambda: (setattr(s1, fl[0], getattr(s1, fl[0])), _fields(s1))[1],
                 lambda: (setattr(t1, fl[0], getattr(t1, fl[0])), _fields(t1))[1])
            both("delattr-frozen", lambda: _frozen_del(s1, fl[0]), lambda: _frozen_del(t1, fl[0]))
        both("qualname", lambda: (S.__qualname__, S.__module__, S.__name__), lambda: (T.__qualname__, T.__module__, T.__name__))
        both("methods", lambda: sorted(k for k in vars(S) if not k.startswith("__") and k not in fl),
             lambda: sorted(k for k in vars(T) if not k.startswith("__") and k not in fl))
        both("user-attrs", lambda: [getattr(s1, k, None) if not callable(getattr(s1, k, None)) else getattr(s1, k)() for k in ("KONST", "double", "KVAR", "ivar")],
             lambda: [getattr(t1, k, None) if not callable(getattr(t1, k, None)) else getattr(t1, k)() for k in ("KONST", "double", "KVAR", "ivar")])
        both("class-attrs", lambda: [repr(getattr(S, k, None)) for k in ("KONST", "KVAR", "ivar")], lambda: [repr(getattr(T, k, None)) for k in ("KONST", "KVAR", "ivar")])
        both("dataclass-params", lambda: _params(S), lambda: _params(T))
        both("field-names", lambda: [f.name for f in __import__("dataclasses").fields(S)], lambda: fl)
        # slot layout (no twin counterpart: checked against the statement directly)
        inherited = set()
        for b in S.__mro__[1:]:
            inherited.update(getattr(b, "__slots__", ()) if not isinstance(getattr(b, "__slots__", ()), str) else (b.__slots__,))
        own_fields = [f for f in fl if f not in inherited]
        want = list(own_fields)
        # the two special slots only when requested and not already provided by a base
        if flags["dict"] and not any(b.__dictoffset__ for b in S.__bases__):
            want.append("__dict__")
        if flags["weakref"] and not any(b.__weakrefoffset__ for b in S.__bases__):
            want.append("__weakref__")
        got = list(getattr(S, "__slots__", ()))
        if sorted(got) != sorted(want):
            diffs.append({"aspect": "slots-layout", "slotted": got, "twin": want})
        base_has_dict = any("__dict__" in vars(b) or ("__dict__" in (getattr(b, "__slots__", ()) or ())) for b in S.__mro__[1:-1] if True) or \
            any(not hasattr(b, "__slots__") for b in S.__mro__[1:-1])
        has_dict = hasattr(s1, "__dict__")
        if has_dict and not (flags["dict"] or base_has_dict):
            diffs.append({"aspect": "instance-dict", "slotted": "instance has __dict__", "twin": "not requested, not inherited"})
        if flags["weakref"] or any("__weakref__" in dir(b) for b in S.__mro__[1:-1]):
            r = _try(lambda: weakref.ref(s1)() is s1)
            if r != ("ok", True):
                diffs.append({"aspect": "weakref", "slotted": _r(r), "twin": "weak reference requested"})
        return diffs


def _copy_dict_probe(obj, how=copy.copy):
    object.__setattr__(obj, "_vw_cached", [1])
    try:
        c = how(obj)
        vars(c)["_vw_more"] = 2
        return [vars(c) is vars(obj), "_vw_more" in vars(obj), getattr(c, "_vw_cached", None)]
    finally:
        vars(obj).pop("_vw_cached", None)
        vars(obj).pop("_vw_more", None)


def _frozen_del(obj, name):
    import dataclasses

    try:
        object.__getattribute__(obj, name)
    except AttributeError:
        return "absent"
    try:
        setattr(obj, name, getattr(obj, name))
        return "mutable"
    except dataclasses.FrozenInstanceError:
        return "frozen"


def _params(cls):
    p = cls.__dataclass_params__
    return [p.init, p.repr, p.eq, p.order, p.unsafe_hash, p.frozen]


def _fields(x):
    import dataclasses

    return model.canon([[f.name, getattr(x, f.name, "<unset>")] for f in dataclasses.fields(x)])


def _try(fn):
    try:
        return ("ok", fn())
    except RecursionError:
        raise
    except Exception as e:  # noqa: BLE001
        if os.environ.get("TLSIM_DEBUG"):
            import traceback

            traceback.print_exc()
        return ("exc", type(e).__name__)


def _r(t):
    s = repr(t)
    return s if len(s) < 300 else s[:300] + "..."


def _rebuild_on(twin, slotted_base):
    """The twin re-created as a subclass of an already slotted base (what a module that
    decorates both parent and child ends up with)."""
    import dataclasses

    ns = {k: v for k, v in vars(twin).items() if k not in ("__dict__", "__weakref__", "__slotnames__")}
    # strip dataclass-generated members so that the decorator regenerates them
    for k in ("__dataclass_fields__", "__dataclass_params__", "__init__", "__repr__", "__eq__", "__hash__", "__match_args__",
              "__lt__", "__le__", "__gt__", "__ge__", "__setattr__", "__delattr__", "__replace__"):
        ns.pop(k, None)
    p = twin.__dataclass_params__
    for f in dataclasses.fields(twin):
        if f.name in twin.__dict__.get("__annotations__", {}):
            if f.default is not dataclasses.MISSING:
                ns[f.name] = f.default
            elif f.default_factory is not dataclasses.MISSING:
                ns[f.name] = dataclasses.field(default_factory=f.default_factory)
    new = type(twin.__name__, (slotted_base,), ns)
    new.__qualname__ = twin.__qualname__
    new.__module__ = twin.__module__
    return dataclasses.dataclass(new, eq=p.eq, order=p.order, unsafe_hash=p.unsafe_hash, frozen=p.frozen)


PROP = C19()
