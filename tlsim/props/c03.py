"""C03 - unmarshal never returns a value outside the target type."""

from __future__ import annotations

import copy
import json

from .. import conform, core, gen, hist, model
from ..session import Outcome
from . import PropBase, steps_with_ids

FAULTS = ("clear", "shrink", "twin", "clear_typing", "deep", "reject")
STRUCT_OPS = ("drop_field", "rename_field", "retype", "remove_elem", "add_elem", "dup_elem", "reorder", "wrap", "unwrap", "graft", "add_key", "attr_name", "pad")
BYTE_OPS = ("truncate", "dup_span", "flip_byte")


ATTR_NAMES = ["mro", "__module__", "__members__", "__name__", "__qualname__", "__class__", "__doc__", "_value2member_map_", "_member_names_",
              "name", "value", "real", "imag", "numerator", "to_bytes", "bit_length", "__init__", "__dict__", "upper", "M0", "M1"]


def _nodes(w, path=()):
    """(path, node) for every node of a wire value AST."""
    yield path, w
    if isinstance(w, dict):
        if "$list" in w:
            for i, e in enumerate(w["$list"]):
                yield from _nodes(e, path + ("$list", i))
        elif "$dict" in w:
            for i, (k, v) in enumerate(w["$dict"]):
                yield from _nodes(v, path + ("$dict", i, 1))


def _get(w, path):
    for p in path:
        w = w[p]
    return w


def _set(w, path, val):
    if not path:
        return val
    tgt = w
    for p in path[:-1]:
        tgt = tgt[p]
    tgt[path[-1]] = val
    return w


def corrupt(rng, wire, graft_pool):
    """Apply 1-3 structural corruption operators to a wire value AST.  Returns (wire', ops)."""
    w = copy.deepcopy(wire)
    applied = []
    for _ in range(rng.randint(1, 3)):
        nodes = list(_nodes(w))
        path, node = rng.choice(nodes)
        ops = ["retype", "wrap", "graft"]
        if not isinstance(node, dict):
            ops += ["attr_name"]  # a scalar replaced by text that names an attribute every class has (never a value of it)
        if isinstance(node, str):
            ops += ["pad", "pad"]  # blanks or a newline around the text: other text (a Literal or Enum lists exact members)
            ops += ["as_buffer", "as_buffer"]  # the text held in a writable buffer / a view: a bytes position builds its own bytes from it
        if isinstance(node, dict) and "$b" in node:
            ops += ["as_buffer"] * 4
        if isinstance(node, dict) and "$dict" in node:
            ops += ["add_key", "add_key"]
            if node["$dict"]:
                ops += ["drop_field", "drop_field", "rename_field", "rename_field", "reorder"]
        if isinstance(node, dict) and "$list" in node:
            ops += ["add_elem", "add_elem"]
            if node["$list"]:
                ops += ["remove_elem", "remove_elem", "dup_elem", "reorder"]
                if len(node["$list"]) == 1:
                    ops += ["unwrap"]
        op = rng.choice(ops)
        if op == "drop_field":
            node["$dict"].pop(rng.randrange(len(node["$dict"])))
        elif op == "rename_field":
            i = rng.randrange(len(node["$dict"]))
            k = node["$dict"][i][0]
            node["$dict"][i][0] = (k + "_x") if isinstance(k, str) else "renamed"
        elif op == "add_key":
            node["$dict"].append([rng.choice(["extra", "a", "value", "__class__", ""]), hist.junk(rng)])
        elif op == "reorder":
            tag = "$dict" if "$dict" in node else "$list"
            node[tag] = list(reversed(node[tag]))
        elif op == "remove_elem":
            node["$list"].pop(rng.randrange(len(node["$list"])))
        elif op == "add_elem":
            node["$list"].insert(rng.randint(0, len(node["$list"])), hist.junk(rng))
        elif op == "dup_elem":
            i = rng.randrange(len(node["$list"]))
            node["$list"].insert(i, copy.deepcopy(node["$list"][i]))
        elif op == "retype":
            w = _set(w, path, hist.junk(rng))
        elif op == "pad":
            padded = rng.choice([" ", "\n", "\t", ""]) + node + rng.choice(["\n", " ", "\r\n", "  "])
            w = _set(w, path, padded if rng.random() < 0.7 else {"$b": padded.encode().hex()})
        elif op == "as_buffer":
            hx = node["$b"] if isinstance(node, dict) else node.encode().hex()
            # (a writable buffer only: a bytes position given a *view* answers with the text of the view's repr, which holds an address)
            w = _set(w, path, {"$ba": hx})
        elif op == "attr_name":
            name = rng.choice(ATTR_NAMES)
            w = _set(w, path, name if rng.random() < 0.7 else {"$b": name.encode().hex()})
        elif op == "wrap":
            w = _set(w, path, {"$list": [copy.deepcopy(node)]} if rng.random() < 0.6 else {"$dict": [["value", copy.deepcopy(node)]]})
        elif op == "unwrap":
            w = _set(w, path, copy.deepcopy(node["$list"][0]))
        elif op == "graft":
            w = _set(w, path, copy.deepcopy(rng.choice(graft_pool)) if graft_pool else hist.junk(rng))
        applied.append(op)
    return w, applied


def corrupt_bytes(rng, text: str):
    b = bytearray(text.encode("utf-8"))
    op = rng.choice(BYTE_OPS)
    if not b:
        return bytes(b), op
    if op == "truncate":
        b = b[: rng.randrange(len(b))]
    elif op == "dup_span":
        i = rng.randrange(len(b))
        j = min(len(b), i + rng.randint(1, 12))
        b = b[:j] + b[i:j] + b[j:]
    else:
        i = rng.randrange(len(b))
        b[i] ^= 1 << rng.randrange(7)
    return bytes(b), op


def deep_nest(rng, depth):
    v = rng.choice([1, "x", None])
    for _ in range(depth):
        v = {"$list": [v]} if rng.random() < 0.5 else {"$dict": [["a", v]]}
    return v


def _unconverted_instance(v, w):
    """The value AST of a structured instance (at the root or as the elements of a list) rebuilt
    with the *wire* forms of its fields."""
    def one(vv, ww):
        if isinstance(vv, dict) and "$obj" in vv and isinstance(ww, dict) and "$dict" in ww:
            wf = {p[0]: p[1] for p in ww["$dict"] if isinstance(p[0], str)}
            if wf and set(wf) <= set(vv.get("f", {})) | set(wf) and all(k in wf for k in vv.get("f", {})):
                return {"$obj": vv["$obj"], "f": {k: copy.deepcopy(wf[k]) for k in vv["f"]}}
        return None

    r = one(v, w)
    if r is not None:
        return r
    if isinstance(v, dict) and "$list" in v and isinstance(w, dict) and "$list" in w and len(v["$list"]) == len(w["$list"]) and v["$list"]:
        elems = [one(a, b) for a, b in zip(v["$list"], w["$list"])]
        if all(e is not None for e in elems):
            return {"$list": elems}
    return None


class C03(PropBase):
    ID = "C03"
    QUICK_RUNS = 3000
    THOROUGH_RUNS = 100000
    QUICK_BUDGET_S = 60
    THOROUGH_BUDGET_S = 720
    FAULT_KINDS = FAULTS + tuple("F12:" + o for o in STRUCT_OPS + BYTE_OPS)
    RULE = (
        "A case is one unmarshal/decode of a seeded history whose input went through the faulty channel: the wire form of a valid "
        "value of T with 1-3 corruption operators applied (field dropped/renamed/retyped, element removed/added/duplicated/"
        "reordered, nesting wrapped/unwrapped, subtree replaced by another type's wire form or junk; on the byte level truncate / "
        "duplicate span / flip a bit), or an input from the junk pool, as a value or as JSON text in a text carrier. Oracle: the call "
        "raises an Exception, or its result structurally conforms to T. Non-trivial: the corrupted form differs from the clean one "
        "and was accepted by the JSON decoder (so the unmarshaller had to decide), or a fault fired before; distinct = distinct "
        "(operation digest, pre-state signature) pairs."
        ' Text inputs include Python-literal text whose mapping keys are not str.'
        ' Positions typed bytes are also fed writable buffers and views (the result holds bytes of its own there).'
    )
    ASSUMPTIONS = ["conformance is the lenient structural notion of DESIGN §5.2 (subclass instances conform at scalar and class positions; "
                   "Literal membership by ==; exact builtin containers)"]

    def gen(self, seed, tier):
        rng = core.rng_for(seed, "gen")
        cfg = gen.Cfg.for_tier(tier)
        sw = hist.swarm(rng, FAULTS)
        world, view = gen.gen_world(rng, cfg)
        if "reject" in sw:
            # F11: a user constructor that rejects a chosen value
            for m in world["modules"]:
                for d in m["decls"]:
                    if d["d"] in ("plain", "slotsclass") and d["fields"] and d["fields"][0]["t"]["k"] in ("int", "str"):
                        d["reject"] = {"n": d["fields"][0]["n"], "v": 0 if d["fields"][0]["t"]["k"] == "int" else ""}
                        if rng.random() < 0.5:
                            d["reject"]["exc"] = "StopIteration"
        mods = [m["name"] for m in world["modules"]]
        twins = None
        if len(mods) >= 2:
            # two recursive classes of one name in two modules, met in one graph: every position gets its own class
            R0, R1 = {"k": "ref", "m": mods[0], "n": "VwNodeS"}, {"k": "ref", "m": mods[1], "n": "VwNodeS"}
            opt = lambda r: {"k": "union", "sp": "optional", "a": [r, {"k": "none"}]}  # noqa: E731
            world["modules"][0]["decls"].append({"d": "dataclass", "n": "VwNodeS", "flags": {}, "fields": [
                {"n": "value", "t": {"k": "int"}}, {"n": "next", "t": opt(R0), "default": None}]})
            world["modules"][1]["decls"].append({"d": "dataclass", "n": "VwNodeS", "flags": {}, "fields": [
                {"n": "value", "t": {"k": "dec"}}, {"n": "next", "t": opt(R1), "default": None}, {"n": "history", "t": {"k": "list", "a": R0}, "factory": "list"}]})
            twins = R1
        lk = view.lookup()
        env = self.base_env(rng, fault_free=not sw)
        rejecting = [(m["name"], d) for m in world["modules"] for d in m["decls"] if d.get("reject")]
        pool = []
        for t in gen.root_types(view, rng, cfg, rng.randint(2, 5)):
            pool.append((t, [gen.gen_pair(rng, t, lk, cfg) for _ in range(rng.randint(1, 2))]))
        graft = [w for _, ps in pool for _, w in ps]
        steps = []
        n = rng.randint(1, 14 if tier == "quick" else 40)
        fk = [k for k in sw if k in ("clear", "shrink", "clear_typing")]
        while len(steps) < n:
            r = rng.random()
            if fk and steps and r < 0.15:
                steps.append(hist.fault_step(rng, rng.choice(fk), steps))
                continue
            if rejecting and r < 0.4:
                # F11 inside an operation with in-flight state: a collection whose k-th member is
                # refused by its (user) constructor while the conversion is under way
                mname, d = rng.choice(rejecting)
                ref = {"k": "ref", "m": mname, "n": d["n"]}
                elems = []
                k_bad = rng.randrange(0, 4)
                for j in range(rng.randint(k_bad + 1, 5)):
                    v, w = gen.gen_pair(rng, ref, lk, cfg)
                    w = copy.deepcopy(w)
                    for pair in w["$dict"]:
                        if pair[0] == d["reject"]["n"]:
                            pair[1] = d["reject"]["v"] if j == k_bad else (7 if isinstance(d["reject"]["v"], int) else "ok")
                    elems.append(w)
                shape = rng.choice(["list", "tuplevar", "dict", "deque", "Sequence"])
                if shape == "dict":
                    t = {"k": "dict", "a": [{"k": "str"}, {"k": "list", "a": ref}]}
                    x = {"$dict": [["k", {"$list": elems}]]}
                else:
                    t = {"k": shape, "a": ref} if shape != "Sequence" else {"k": "Sequence", "sp": "typing", "a": ref}
                    x = {"$list": elems}
                if rng.random() < 0.3:
                    txt = hist.json_text(x)
                    if txt is not None:
                        x = hist.carry(txt, rng.choice(["str", "bytes"]))
                steps.append({"op": "unmarshal", "t": t, "mod": rng.choice(mods), "x": x, "f12": ["member-rejected:" + d["reject"].get("exc", "ValueError")], "clean": None})
                continue
            if 0.82 < r <= 0.86:
                # binary input that is not `bytes` (a writable buffer, a view) at a position whose type is bytes:
                # the result holds bytes objects of its own there
                hx = rng.choice(["abc", "", "[1, 2]", "h\u00e9", "2020-01-01"]).encode().hex()
                buf = {"$ba": hx}  # (not a view: see as_buffer)
                bt = {"k": "bytes"}
                t, x = rng.choice([(bt, buf), ({"k": "list", "a": bt}, {"$list": [buf, {"$b": hx}]}), ({"k": "dict", "a": [{"k": "str"}, bt]}, {"$dict": [["k", buf]]}),
                                   ({"k": "union", "sp": "optional", "a": [bt, {"k": "none"}]}, buf), ({"k": "tuple", "a": [{"k": "int"}, bt]}, {"$list": [1, buf]}),
                                   ({"k": "union", "sp": "typing", "a": [{"k": "int"}, bt]}, buf)])
                steps.append({"op": "unmarshal", "t": t, "mod": rng.choice(mods), "x": x, "f12": ["buffer-at-bytes-position"], "clean": None})
                continue
            if twins is not None and 0.86 < r <= 0.90:
                legacy = {"$dict": [["value", "10"], ["next", {"$dict": [["value", "20"], ["next", {"$dict": [["value", 30]]}]]}]]}
                cur = {"$dict": [["value", "1.5"], ["next", {"$dict": [["value", "2"], ["history", {"$list": [copy.deepcopy(legacy)]}]]}], ["history", {"$list": [legacy, {"$dict": [["value", 7]]}]}]]}
                steps.append({"op": "unmarshal", "t": rng.choice([twins, {"k": "list", "a": twins}]), "mod": rng.choice(mods), "x": cur, "f12": ["same-name-classes-in-one-graph"], "clean": None})
                if steps[-1]["t"]["k"] == "list":
                    steps[-1]["x"] = {"$list": [cur]}
                continue
            if r > 0.94:
                # a one-shot iterator as the input of a collection or mapping target: every element it yields
                # is part of the result (a mapping target numbers them), the first one included
                ek = rng.choice(["int", "str"])
                elems = rng.sample([1, 2, 3, 5, 8, 13], rng.randint(1, 4)) if ek == "int" else rng.sample(["a", "b", "cc", "d", "xyz"], rng.randint(1, 4))
                t = rng.choice([{"k": "dict", "a": [{"k": "int"}, {"k": ek}]}, {"k": "dict", "a": [{"k": "str"}, {"k": ek}]}, {"k": "list", "a": {"k": ek}},
                                {"k": "tuplevar", "a": {"k": ek}}, {"k": "Mapping", "sp": "typing", "a": [{"k": "int"}, {"k": ek}]}, {"k": "deque", "a": {"k": ek}},
                                # a union of collections: the member that rejects half-way must not leave the next one the remainder
                                {"k": "union", "sp": "typing", "a": [{"k": "list", "a": {"k": "int"}}, {"k": "list", "a": {"k": "str"}}]},
                                {"k": "union", "sp": "pipe", "a": [{"k": "tuplevar", "a": {"k": "dec"}}, {"k": "list", "a": {"k": ek}}, {"k": "none"}]}])
                steps.append({"op": "unmarshal", "t": t, "mod": rng.choice(mods), "x": {rng.choice(["$iter", "$gen"]): elems}, "f12": ["one-shot"], "clean": None,
                              "oneshot_n": len(elems)})
                continue
            if 0.90 < r <= 0.94:
                # one list object at two differently typed positions of the input: each position is converted by
                # its own member type (what one conversion makes of it is not the other's input)
                a, b = rng.sample(["int", "str", "float", "dec", "bool"], 2)
                elems = {"$list": rng.sample(["1", "2", "30", "4", "55"], rng.randint(1, 3))}
                first = {"k": "list", "a": {"k": a}} if rng.random() < 0.6 else {"k": "Sequence", "sp": "typing", "a": {"k": a}}
                t = {"k": "tuple", "a": [first, {"k": "list", "a": {"k": b}}]}
                steps.append({"op": "unmarshal", "t": t, "mod": rng.choice(mods), "x": {"$twice": elems, "as": "tuple"}, "f12": ["shared-sub-object"], "clean": None})
                continue
            t, pairs = rng.choice(pool)
            if "twin" in sw and rng.random() < 0.3:
                tw = hist.type_twins(rng, t)
                if tw:
                    t = rng.choice(tw)
            v, w = rng.choice(pairs)
            step = {"op": "unmarshal", "t": t, "mod": rng.choice(mods)}
            src = core.weighted(rng, [(8, "corrupt"), (3, "junk"), (2, "bytes"), (1, "other"), (1 if "deep" in sw else 0, "deep"), (1, "clean"), (2, "instance")])
            ops = []
            if src == "corrupt":
                x, ops = corrupt(rng, w, graft)
            elif src == "junk":
                x = hist.junk(rng)
                ops = ["junk"]
            elif src == "other":
                x = copy.deepcopy(rng.choice(graft))
                ops = ["graft-root"]
            elif src == "deep":
                x = deep_nest(rng, rng.choice([50, 200, 400]))
                ops = ["deep"]
            elif src == "instance":
                ot, opairs = rng.choice(pool)
                x = copy.deepcopy(rng.choice(opairs)[0])
                ops = ["instance-of-other"]
                bad = _unconverted_instance(v, w)
                if bad is not None and rng.random() < 0.7:
                    # an instance of the target class itself whose fields hold wire forms (classes do
                    # not validate what they are constructed with): it must be converted like any input
                    x = bad
                    ops = ["instance-with-unconverted-fields"]
            elif src == "bytes":
                txt = hist.json_text(w)
                if txt is None:
                    continue
                b, bop = corrupt_bytes(rng, txt)
                x = {"$b": b.hex()}
                ops = [bop]
                if rng.random() < 0.5:
                    step["op"] = "decode"
                    step["via"] = rng.choice(["top", "codec"])
            else:
                x = copy.deepcopy(w)
            if step["op"] == "unmarshal" and src in ("corrupt", "other", "clean") and rng.random() < 0.4:
                rr = rng.random()
                txt = hist.json_text(x) if rr < 0.6 else (hist.repr_text(x) if rr < 0.72 else hist.literal_keys_text(x))
                if txt is not None:
                    x = hist.carry(txt, rng.choice(hist.CARRIERS))
                    ops.append("as-text")
            step["x"] = x
            step["f12"] = ops
            step["clean"] = copy.deepcopy(w) if src in ("corrupt", "bytes") else None
            steps.append(step)
        return {"prop": self.ID, "seed": seed, "tier": tier, "world": world, "env": env, "steps": steps_with_ids(steps), "meta": {"swarm": sw}}

    def comparable(self, sess, i, step):
        return False  # single-replica property

    def nontrivial(self, sess, i, step, out, hit_delta):
        if step["op"] not in ("unmarshal", "decode"):
            return False
        changed = step.get("clean") is None or core.jdump(step.get("clean")) != core.jdump(step["x"])
        return (changed and out.ok) or sess.fault_fired_before

    def check(self, sess, i, step, out):
        if step["op"] not in ("unmarshal", "decode"):
            return
        for o in step.get("f12", ()):
            sess.faults["F12:" + o if o in STRUCT_OPS + BYTE_OPS else ("F11:" + o if o.startswith("member-rejected") else o)] += 1
        if step.get("f12") and step["f12"] != ["clean"]:
            sess.fault_fired_before = True
        if not out.ok:
            if isinstance(out.exc, RecursionError):
                sess.probes["recursion_error_on_deep_input"] += 1
            return  # raising is always conforming
        if step.get("oneshot_n") is not None and hasattr(out.value, "__len__") and len(out.value) != step["oneshot_n"]:
            sess.violation("truncated-result", i, {"t": model.tsrc(step["t"]), "where": f"$: {step['oneshot_n']} elements yielded, {len(out.value)} out",
                                                   "f12": step.get("f12"), "got": _s(model.canon(out.value))}, sig="truncated-result:one-shot")
            return
        trunc = _truncated(step["t"], sess.inputs.get(step.get("id", i)), out.value, sess.world)
        if trunc is not None:
            sess.violation("truncated-result", i, {"t": model.tsrc(step["t"]), "where": trunc, "f12": step.get("f12"), "got": _s(model.canon(out.value))},
                           sig="truncated-result")
            return
        err = conform.conforms(step["t"], out.value, sess.world, step.get("mod"))
        if err is not None:
            sess.violation("non-conforming-result", i, {"t": model.tsrc(step["t"]), "where": err[:200], "f12": step.get("f12"),
                                                        "got": _s(model.canon(out.value))},
                           sig="non-conforming:" + _errclass(err))


def _resolve_t(t, world):
    for _ in range(8):
        if t["k"] in ("final", "classvar"):
            t = t["a"]
        elif t["k"] == "ref" and world.decl(t["m"], t["n"])["d"] in ("newtype", "alias"):
            t = world.decl(t["m"], t["n"])["t"]
        else:
            break
    return t


def _truncated(t, x, r, world, path="$", depth=0):
    """'never returns a truncated result': where an ordered collection target was given a list
    or tuple (as a value or as JSON text), the result has one element per input element, at
    every level where the shapes correspond.  Returns a path or None."""
    import collections
    import json as _json

    if depth > 40:
        return None
    t = _resolve_t(t, world)
    if isinstance(x, (str, bytes, bytearray, memoryview)):
        # text counts as a list only where the standard decoder *and* the one the library is
        # configured with read it as JSON (the latter refuses e.g. lone surrogate escapes; such text
        # is then plain text by the library's documented rule, and a list of its characters conforms)
        try:
            from typelib.py import compat

            raw = bytes(x) if not isinstance(x, str) else x
            compat.json.loads(raw)
            x = _json.loads(raw)
        except Exception:
            return None
    k = t["k"]
    if k in ("list", "deque", "tuplevar", "Sequence", "MutableSequence", "Collection", "Iterable"):
        if isinstance(x, (list, tuple)) and isinstance(r, (list, tuple, collections.deque)):
            if len(r) != len(x):
                return f"{path}: {len(x)} elements in, {len(r)} out"
            for i, (xe, re_) in enumerate(zip(x, r)):
                e = _truncated(t["a"], xe, re_, world, f"{path}[{i}]", depth + 1)
                if e:
                    return e
        return None
    if k in ("dict", "Mapping", "MutableMapping") and isinstance(x, dict) and isinstance(r, dict):
        if len(r) != len(x):
            # two input keys were converted to one key (bool("extra") is True): the entry found under
            # an input key need not come from it - no correspondence to follow
            return None
        for kk, xv in x.items():
            if kk in r:
                e = _truncated(t["a"][1], xv, r[kk], world, f"{path}[{kk!r:.20}]", depth + 1)
                if e:
                    return e
        return None
    if k == "ref" and isinstance(x, dict):
        d = world.decl(t["m"], t["n"])
        for f in d.get("fields", ()):
            if f["n"] in x:
                rv = r.get(f["n"], None) if isinstance(r, dict) else getattr(r, f["n"], None)
                if rv is not None:
                    e = _truncated(f["t"], x[f["n"]], rv, world, f"{path}.{f['n']}", depth + 1)
                    if e:
                        return e
    return None


def _errclass(err: str) -> str:
    """Class of a conformance error for signatures: what kind of position, not which value."""
    msg = err.split(": ", 1)[-1]
    for key in ("required key", "fixed tuple of arity", "no union member accepts", "is not a declared Literal member", "attribute missing",
                "is not a member of", "is not None", "is not dict", "is not list", "is not tuple", "is not set", "is not frozenset", "is not deque"):
        if key in msg:
            return key.replace(" ", "-")
    if " is not " in msg:
        return "wrong-class:" + msg.split(" is not ", 1)[1][:30].replace(" ", "-")
    return "other"


def _s(x, n=260):
    s = core.jdump(x) if not isinstance(x, str) else x
    return s if len(s) <= n else s[:n] + "..."


PROP = C03()
