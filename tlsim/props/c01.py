"""C01 - unmarshalling a marshalled value restores the value."""

from __future__ import annotations

import copy

from .. import core, gen, hist, model
from ..session import Outcome
from . import PropBase, steps_with_ids

FAULTS = ("twin", "clear", "shrink", "zone", "clock", "stack", "clear_typing", "exhaust_scan", "mutate_result")


class C01(PropBase):
    ID = "C01"
    REPLICAS = 2
    QUICK_RUNS = 2500
    THOROUGH_RUNS = 80000
    QUICK_BUDGET_S = 60
    THOROUGH_BUDGET_S = 720
    FAULT_KINDS = FAULTS
    RULE = (
        "A case is one round trip unmarshal(T, marshal(v, t=T)) of a seeded history over a generated world (T from universe U, v "
        "valid and boundary-biased). Non-trivial: it ran after an equal-but-differently-represented twin, after a fired fault, "
        "with faults between its marshal and unmarshal halves (receiver restarted / other zone / clock moved), or from another "
        "module or stack depth; distinct = distinct (operation digest, pre-state signature) pairs. A union position is treated as "
        "ambiguous (weaker fixpoint law) only if an earlier member's routine, obtained independently, accepts the wire form of "
        "the part."
    )
    ASSUMPTIONS = ["values outside the generator's reach are not covered", "naive temporals, NaN/inf, non-default-flag patterns and bytes-like members are outside U"]

    def gen(self, seed, tier):
        rng = core.rng_for(seed, "gen")
        cfg = gen.Cfg.for_tier(tier)
        sw = hist.swarm(rng, FAULTS)
        world, view = gen.gen_world(rng, cfg)
        lk = view.lookup()
        mods = [m["name"] for m in world["modules"]]
        env = self.base_env(rng, fault_free=not sw)
        roots = gen.root_types(view, rng, cfg, rng.randint(1, 4))
        if rng.random() < 0.25:
            # one text, several temporal parsers: unions (and classes) in which the rightful member is
            # reached only after another temporal member refused the wire form
            fam = [{"k": k} for k in rng.sample(["date", "dt", "time", "td"], rng.randint(2, 3))]
            if not any(m["k"] == "td" for m in fam):
                fam[rng.randrange(len(fam))] = {"k": "td"}
            u = {"k": "union", "sp": rng.choice(["pipe", "typing"]), "a": fam}
            roots.append(rng.choice([u, {"k": "list", "a": u}, {"k": "dict", "a": [{"k": "str"}, u]}, {"k": "tuple", "a": [{"k": fam[0]["k"]}, {"k": "td"}, u]}]))
            roots.append(roots[-1])
        gen.one_order_per_member_set(world, roots)
        steps = []
        n = rng.randint(1, 14 if tier == "quick" else 40)
        fk = [k for k in sw if k in ("clear", "shrink", "zone", "clock", "clear_typing")]
        while len(steps) < n:
            if fk and steps and rng.random() < 0.2:
                steps.append(hist.fault_step(rng, rng.choice(fk), steps))
                continue
            t = rng.choice(roots)
            if "twin" in sw and rng.random() < 0.3:
                tw = hist.order_preserving_twins(rng, t)
                if tw:
                    t = rng.choice(tw)
            trace = []
            v, w = gen.gen_pair(rng, t, lk, cfg, trace=trace)
            step = {"op": "roundtrip", "t": t, "v": v, "mod": rng.choice(mods), "amb": _dedupe(trace)}
            if "stack" in sw and rng.random() < 0.3:
                step["depth"] = rng.randint(1, 40)
            if "exhaust_scan" in sw and rng.random() < 0.2:
                # the same object is first offered from every stack depth at which marshalling cannot
                # complete (RecursionError one frame further in each time), then converted normally
                step["scan"] = True
            mid = []
            for k in fk:
                if rng.random() < sw[k]:
                    mid.append(hist.fault_step(rng, k, steps))
            if mid:
                step["mid"] = mid
            if "twin" in sw and rng.random() < 0.4:
                tv = hist.value_twin(rng, v)
                if tv is not None:
                    steps.append({"op": "roundtrip", "t": t, "v": tv, "mod": rng.choice(mods), "amb": [], "twin": True})
            steps.append(step)
            if "mutate_result" in sw and rng.random() < 0.35:
                # the caller edits what came back (empty containers get members), then the same value goes round again
                steps.append({"op": "mutate_result", "ref": len(steps) - 1})
                again = copy.deepcopy({k: v_ for k, v_ in step.items() if k not in ("scan", "mid")})
                steps.append(again)
        return {"prop": self.ID, "seed": seed, "tier": tier, "world": world, "env": env, "steps": steps_with_ids(steps), "meta": {"swarm": sw}}

    def comparable(self, sess, i, step):
        # time-only text is documented as relative to "today": where a union lets another
        # member read such text, the outcome legitimately depends on clock and zone
        if "v" in step and hist.env_relative_value(step["v"]):
            return False
        # ... and so is the *wire form* when a lenient earlier member wrote a later member's value
        # (the recorded first-acceptor-marshal finding): str(timedelta) is time-only text
        wire = sess.results.get(("wire", step.get("id", i)))
        return not (wire is not None and hist.env_relative_value(wire))

    def nontrivial(self, sess, i, step, out, hit_delta):
        if step["op"] != "roundtrip":
            return False
        return bool(step.get("mid")) or bool(step.get("depth")) or sess.fault_fired_before or hit_delta > 0

    def check(self, sess, i, step, out):
        import typelib

        if step["op"] != "roundtrip":
            return
        sid = step.get("id", i)
        if step.get("twin"):
            sess.faults["twin"] += 1
            sess.fault_fired_before = True
            return  # the twin is a fault, judged only as a history element
        v = sess.inputs[sid]
        T = sess.T(step)
        if not out.ok:
            stage = "marshal" if ("wire", sid) not in sess.results else "unmarshal"
            if stage == "unmarshal" and self._ambiguity(sess, step)[1]:
                # the wire form was produced by an earlier member's marshaller (first-acceptor rule)
                sess.violation("roundtrip-raised", i, {"stage": stage, "exc": f"{type(out.exc).__name__}: {out.exc}"[:240], "t": model.tsrc(step["t"])},
                               sig="first-acceptor-marshal:unmarshal-raised")
                return
            sess.violation("roundtrip-raised", i, {"stage": stage, "exc": f"{type(out.exc).__name__}: {out.exc}"[:240], "t": model.tsrc(step["t"])},
                           sig=f"raised:{stage}:{type(out.exc).__name__}:{_shape(step)}")
            return
        if model.same(out.value, v):
            return
        m = sess.results.get(("wire", sid))
        amb_u, amb_m = self._ambiguity(sess, step)
        # weaker law only where a union position is really ambiguous for this value
        if amb_u or amb_m:
            sess.probes["ambiguous_union_weak_law"] += 1
            back = sess.guarded(sess.call, step, typelib.marshal, out.value, t=T)
            if back.ok and back.value == m:  # the statement's own relation: Python ==
                return
            sess.violation("fixpoint", i, {"t": model.tsrc(step["t"]), "wire": _s(model.canon(m)), "again": repr(back)[:200]},
                           sig="first-acceptor-marshal:fixpoint" if amb_m else "ambiguous-union:fixpoint")
            return
        sess.violation("roundtrip-mismatch", i, {"t": model.tsrc(step["t"]), "want": _s(model.canon(v)), "got": _s(model.canon(out.value)), "wire": _s(model.canon(m))},
                       sig=f"mismatch:{_shape(step)}:{_first_diff(model.canon(v), model.canon(out.value))}")

    def _ambiguity(self, sess, step):
        """(unmarshal-side, marshal-side) ambiguity of the union positions of this value.

        unmarshal side - the statement's own condition: an earlier member's routine, obtained
        independently, accepts the wire form of the part.  marshal side - the first-acceptor rule
        of C08: an earlier member's *marshaller* accepts the value itself, so the wire form is that
        member's and not the value's."""
        import typelib

        amb_u = amb_m = False
        for rec in step.get("amb", ()):
            u, m = rec["u"], rec["m"]
            members = u["a"]
            keys = [core.jdump(a) for a in members]
            try:
                j = keys.index(core.jdump(m))
            except ValueError:
                continue
            mod = step.get("mod")
            try:
                part = sess.V(rec["v"])
                wire = typelib.marshal(part, t=sess.world.realize(m, mod))
            except Exception:
                try:
                    wire = sess.V(rec["w"])
                except Exception:
                    continue
            # None is tried first wherever it is declared (C08): a part whose wire form is None
            # is ambiguous with the None member at any position
            if wire is None and m["k"] != "none" and any(a["k"] == "none" for a in members):
                amb_u = True
            for i2 in range(j):
                Ti = sess.world.realize(members[i2], mod)
                if not amb_u:
                    try:
                        sess.world.call(mod, 0, typelib.unmarshaller(Ti), copy.deepcopy(wire))
                        amb_u = True
                    except Exception:
                        pass
                if not amb_m:
                    try:
                        sess.world.call(mod, 0, typelib.marshaller(Ti), sess.V(rec["v"]))
                        amb_m = True
                    except Exception:
                        pass
            if amb_u and amb_m:
                break
        return amb_u, amb_m


def _dedupe(trace, cap=600):
    """One record per distinct (union, member, wire form): large values repeat positions."""
    out, seen = [], set()
    for rec in trace:
        k = core.digest(core.jdump([rec["u"], rec["m"], rec["w"]]))
        if k not in seen:
            seen.add(k)
            out.append(rec)
            if len(out) >= cap:
                break
    return out


def _same_union_order(a, b) -> bool:
    ua = [tuple(core.jdump(x) for x in n["a"]) for n in model.twalk(a) if n["k"] == "union"]
    ub = [tuple(core.jdump(x) for x in n["a"]) for n in model.twalk(b) if n["k"] == "union"]
    return ua == ub


def _shape(step) -> str:
    """Coarse shape of the root type for signatures."""
    t = step["t"]
    kinds = sorted({n["k"] for n in model.twalk(t)})
    return t["k"] + "[" + ",".join(k for k in kinds if k != t["k"])[:80] + "]"


def _first_diff(a, b, path="") -> str:
    """Where two canonical forms first differ (kind of position, not the value)."""
    if type(a) is not type(b):
        return path + ":type"
    if isinstance(a, list):
        if a and b and isinstance(a[0], str) and isinstance(b[0], str) and a[0] != b[0]:
            return f"{path}:{a[0]}->{b[0]}"
        if len(a) != len(b):
            return f"{path}:{a[0] if a and isinstance(a[0], str) else 'seq'}:len"
        for x, y in zip(a, b):
            if x != y:
                tag = a[0] if a and isinstance(a[0], str) else ""
                return _first_diff(x, y, (path + "/" + tag)[-60:])
    return path + ":value"


def _s(x, n=260):
    s = core.jdump(x) if not isinstance(x, str) else x
    return s if len(s) <= n else s[:n] + "..."


PROP = C01()
