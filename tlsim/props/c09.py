"""C09 - the type graph is a complete dependency order with every cycle cut."""

from __future__ import annotations

import copy
import typing

from .. import core, gen, hist, model
from ..session import Outcome
from . import PropBase, steps_with_ids

FAULTS = ("mutate_returned", "clear", "clear_typing", "stack", "spelling", "exhaust_scan", "reload")
SPELLINGS = ("type", "str", "fref", "newtype", "alias", "itertypes")


# ---------------------------------------------------------------------------------------------
# the independent model: members by Python's own rules
# ---------------------------------------------------------------------------------------------

def m_unwrap(t):
    """Peel NewType / value alias / Final / ClassVar.  A string-valued alias stays (deferred)."""
    for _ in range(32):
        if hasattr(t, "__supertype__"):
            t = t.__supertype__
            continue
        if isinstance(t, typing.TypeAliasType):
            v = t.__value__
            if isinstance(v, str):
                return t
            t = v if v is not None else type(None)
            continue
        if typing.get_origin(t) in (typing.Final, typing.ClassVar):
            t = typing.get_args(t)[0]
            continue
        return t
    return t


def m_members(t):
    """Direct member annotations of an (unwrapped) type."""
    if isinstance(t, typing.TypeAliasType):  # string-valued alias: deferred, no members
        return []
    org = typing.get_origin(t)
    if org is typing.Literal:
        return []
    if org is not None:
        return [a for a in typing.get_args(t) if a is not Ellipsis and a is not typing.Any]
    if isinstance(t, type) and getattr(t, "__module__", "").startswith("vw"):
        import enum

        if issubclass(t, enum.Enum):
            return []
        try:
            hints = typing.get_type_hints(t)
        except Exception:
            return []
        return [h for h in hints.values() if h is not typing.Any]
    return []


def denotes(node, evaluate):
    """The type a node stands for."""
    t = node.type
    if type(t) is typing.ForwardRef:
        return evaluate(t)
    return t


def check_graph(nodes, root_obj, evaluate, root_is_label=False):
    """Returns None or (rule, detail)."""
    nodes = list(nodes)
    if not nodes:
        return ("empty", "no nodes")
    for n in nodes:
        if not all(hasattr(n, a) for a in ("type", "unwrapped", "var", "cyclic")):
            return ("foreign-entry", f"{n!r:.80} is not a graph node")
    # duplicate-free
    seen = []
    for n in nodes:
        if any(n == s for s in seen):
            return ("duplicate", repr(n)[:160])
        seen.append(n)
    last = nodes[-1]
    if not root_is_label and not (last.type == root_obj or last.type is root_obj):
        return ("root-not-last", f"last={last.type!r:.80} root={root_obj!r:.80}")
    full = [n for n in nodes if not n.cyclic]
    for idx, n in enumerate(nodes):
        if type(n.type) is typing.ForwardRef and not n.cyclic:
            if n.var is not None and n.type.__forward_is_argument__ and n.type.__forward_module__ and _signature_only_owner(n, nodes):
                # the text of a constructor annotation under postponed evaluation (a class whose member types are
                # written on __init__ only): handed on as a reference to it, never evaluated, never flagged
                return ("signature-hint-left-as-reference", repr(n)[:160])
            return ("forwardref-not-flagged", repr(n)[:160])
        if n.cyclic:
            try:
                d = denotes(n, evaluate)
            except Exception as e:  # noqa: BLE001
                return ("deferred-unresolvable", f"{n!r:.120}: {type(e).__name__}: {e}"[:240])
            du = m_unwrap(d)
            if not any((f.type == d or m_unwrap(f.type) == du) for f in full):
                return ("flagged-not-a-revisit", repr(n)[:160])
            continue
        u = m_unwrap(n.type)
        if isinstance(u, typing.TypeAliasType):
            # string-valued alias: a single deferred node carrying a reference to its body
            if type(n.unwrapped) is not typing.ForwardRef:
                return ("string-alias-not-deferred", repr(n)[:160])
            try:
                body = evaluate(n.unwrapped)
                want = eval(u.__value__, vars(__import__("sys").modules[u.__module__]))
                want = type(None) if want is None else want  # None as an annotation means NoneType
            except Exception as e:  # noqa: BLE001
                return ("deferred-unresolvable", f"{n!r:.120}: {type(e).__name__}: {e}"[:240])
            if body != want or repr(body) != repr(want):
                return ("deferred-denotes-other-type", f"{body!r:.80} != {want!r:.80}")
            continue
        for m in m_members(u):
            ok = False
            for p in nodes[:idx]:
                try:
                    d = denotes(p, evaluate)
                except Exception as e:  # noqa: BLE001
                    return ("deferred-unresolvable", f"{p!r:.120}: {type(e).__name__}: {e}"[:240])
                if d == m and _params_equal(d, m):
                    ok = True
                    break
            if not ok:
                # a member equal to the node's own type is a self-revisit that may only appear deferred
                return ("member-not-before-container", f"member {m!r:.80} of {n.type!r:.80}")
    return None


def _params_equal(a, b) -> bool:
    """'parameters included': list[int] must not be represented by bare list."""
    return typing.get_args(a) == typing.get_args(b) or set(map(repr, typing.get_args(a))) == set(map(repr, typing.get_args(b)))


def tnorm(t) -> str:
    """Rendering of an annotation up to typing's own equality: X | None, Optional[X] and
    Union[None, X] are one type (the memos hand out whichever equal object came first)."""
    import types

    org = typing.get_origin(t)
    if org in (typing.Union, types.UnionType):
        return "Union[" + ",".join(sorted(tnorm(a) for a in typing.get_args(t))) + "]"
    if org is typing.Literal:
        return "Literal[" + ",".join(sorted(repr(a) for a in typing.get_args(t))) + "]"
    if org is not None and typing.get_args(t):
        name = getattr(org, "__qualname__", None) or str(org)
        return f"{getattr(org, '__module__', '')}.{name}[" + ",".join(tnorm(a) for a in typing.get_args(t)) + "]"
    if t is Ellipsis:
        return "..."
    return model._tstr(t)


def render(nodes, drop_last_label=False):
    out = []
    for i, n in enumerate(nodes):
        if not hasattr(n, "type"):
            out.append(["<foreign>", repr(n)[:40], None, False])
            continue
        lab = "<root>" if (drop_last_label and i == len(nodes) - 1) else tnorm(n.type)
        out.append([lab, tnorm(n.unwrapped), n.var, bool(n.cyclic)])
    return out


class C09(PropBase):
    ID = "C09"
    TIMEOUT_IS_VERDICT = True  # "static_order terminates" is part of the statement
    RUN_TIMEOUT_S = {"quick": 20.0, "thorough": 60.0}
    QUICK_RUNS = 2500
    THOROUGH_RUNS = 100000
    QUICK_BUDGET_S = 60
    THOROUGH_BUDGET_S = 600
    FAULT_KINDS = FAULTS
    RULE = (
        "A case is one static_order/itertypes call of a seeded history over a generated world (roots: every declaration and containers "
        "of them, incl. recursive groups, nested unions, aliases, NewTypes), in one of six spellings (evaluated type, expression "
        "string, ForwardRef, a NewType of it, a value alias of it, itertypes). The returned sequence is checked by an independent "
        "invariant checker (duplicate-free, root last, every direct member - by typing.get_args / get_type_hints - denoted by an "
        "earlier node, string aliases deferred with a reference that evaluates to their body, forward-reference nodes flagged, flagged "
        "nodes are revisits and evaluate to exactly the type they stand for) and compared across spellings. Non-trivial: the returned "
        "sequence of an earlier call for the same root was mutated by its caller (F3), or the call follows a cache clear or another "
        "spelling of the same root; distinct = distinct (operation digest, pre-state signature) pairs."
        ' Under the swept exhaustion fault the walk is first attempted from every stack depth at which it cannot complete; the order finally returned is judged as any other.'
    )
    ASSUMPTIONS = ["members of world classes are what typing.get_type_hints reports; stdlib and enum classes have none"]

    def gen(self, seed, tier):
        rng = core.rng_for(seed, "gen")
        cfg = gen.Cfg.for_tier(tier)
        sw = hist.swarm(rng, FAULTS)
        world, view = gen.gen_world(rng, cfg)
        mods = [m["name"] for m in world["modules"]]
        env = self.base_env(rng, fault_free=True)
        # one name bound to different classes in every module: the same reference *text* means
        # different types for different callers
        same = []
        for mi, m in enumerate(world["modules"]):
            fields = [{"n": "a", "t": {"k": "int"}}] if mi == 0 else [{"n": "label", "t": {"k": "str"}}, {"n": "price", "t": {"k": "dec"}}]
            fields.append({"n": "kids", "t": {"k": "list", "a": {"k": "ref", "m": m["name"], "n": "VwSame"}}, "factory": "list"})
            m["decls"].append({"d": "dataclass", "n": "VwSame", "fields": fields, "flags": {}})
            same.append({"k": "ref", "m": m["name"], "n": "VwSame"})
        # the bare None annotation is not a type object (NoneType is); C15 covers it
        roots = [t for t in gen.root_types(view, rng, cfg, rng.randint(1, 4)) if t["k"] != "none"] or [{"k": "int"}]
        if rng.random() < 0.3:
            # mutually recursive type aliases (lazily evaluated `type` statements), None declared first
            world["modules"][0]["decls"].append({"d": "raw", "n": "VwRA", "src": "type VwRA = None | int | VwRB\ntype VwRB = None | str | VwRA\ntype VwRC = list[VwRC] | int\n"})
            roots.append({"k": "raw", "src": rng.choice(["vw0.VwRA", "vw0.VwRB", "list[vw0.VwRA]", "vw0.VwRC", "dict[str, vw0.VwRB]"])})
        if rng.random() < 0.3:
            # generics without fields of their own that are not collections the library names: their arguments
            # are members like any other (iterators, views, ChainMap, a user Generic class)
            world["modules"][0]["decls"].append({"d": "raw", "n": "VwPage", "src": (
                "VwPT = typing.TypeVar('VwPT')\nclass VwPage(typing.Generic[VwPT]):\n    pass\n"
                "@dataclasses.dataclass\nclass VwFeed:\n    name: str\n    entries: typing.Iterator[VwSame]\n    pages: VwPage[int] = None\n"
                # members whose names start with an underscore are members of the graph like any other
                "@dataclasses.dataclass\nclass VwPrivTree:\n    value: int\n    _tag: VwSame = None\n"
                "    _children: 'list[VwPrivTree]' = dataclasses.field(default_factory=list)\n    _parent: 'typing.Optional[VwPrivTree]' = None\n"
                "class VwPrivPlain:\n    def __init__(self, _owner: VwSame, _n: int = 0):\n        self._owner = _owner\n"
                # classes nested in classes, named by module-qualified text
                "class VwNestNS:\n    @dataclasses.dataclass\n    class VwNode:\n        v: int = 0\n        kids: 'list[VwNestNS.VwNode]' = dataclasses.field(default_factory=list)\n"
                "    class VwDeep:\n        @dataclasses.dataclass\n        class VwItem:\n            n: int = 0\n            tag: VwSame = None\n")})
            roots.append({"k": "raw", "src": rng.choice(["typing.Iterator[int]", "collections.abc.Iterator[vw0.VwSame]", "collections.ChainMap[str, vw0.VwSame]",
                                                         "vw0.VwPage[vw0.VwSame]", "list[typing.Iterator[vw0.VwSame]]", "dict[str, vw0.VwPage[int]]", "vw0.VwFeed",
                                                         "collections.abc.KeysView[str]", "typing.Generator[int, None, None]", "vw0.VwPrivTree", "list[vw0.VwPrivTree]", "vw0.VwPrivPlain", "vw0.VwPrivTree",
                                                         "vw0.VwNestNS.VwNode", "vw0.VwNestNS.VwDeep.VwItem", "vw0.VwNestNS.VwNode"])})
        if rng.random() < 0.3:
            # one qualified scalar (Final[int], ClassVar[str]) at several members of one class: each occurrence is a
            # member with a full node of its own (a scalar closes no cycle)
            world["modules"][0]["decls"].append({"d": "raw", "n": "VwLimits", "src": (
                "@dataclasses.dataclass\nclass VwLimits:\n    low: typing.Final[int] = 0\n    high: typing.Final[int] = 10\n"
                "    unit: typing.ClassVar[str] = 'K'\n    label: typing.ClassVar[str] = 'temp'\n    step: typing.Final[int] = 1\n"
                "class VwLimitsPlain:\n    lo: typing.Final[float]\n    hi: typing.Final[float]\n    def __init__(self, lo: float = 0.0, hi: float = 1.0):\n        self.lo, self.hi = lo, hi\n")})
            roots.append({"k": "raw", "src": rng.choice(["vw0.VwLimits", "list[vw0.VwLimits]", "vw0.VwLimitsPlain", "dict[str, vw0.VwLimits]"])})
        if len(world["modules"]) >= 2 and rng.random() < 0.35:
            # a member inherited from a base class in another module, written as text there: it means what the
            # base's module means by it (both modules have a VwSame of their own)
            m0n, m1n = world["modules"][0]["name"], world["modules"][1]["name"]
            world["modules"][0]["decls"].append({"d": "raw", "n": "VwBaseS", "src": (
                "@dataclasses.dataclass\nclass VwBaseS:\n    kid: 'typing.Optional[VwSame]' = None\n    kids: 'list[VwSame]' = dataclasses.field(default_factory=list)\n")})
            world["modules"][1]["decls"].append({"d": "raw", "n": "VwDerS", "src": f"@dataclasses.dataclass\nclass VwDerS({m0n}.VwBaseS):\n    extra: int = 0\n"})
            roots.append({"k": "raw", "src": rng.choice([f"{m1n}.VwDerS", f"list[{m1n}.VwDerS]"])})
        # (two member orders of one member set in one process is the union-order alias that C08/C12 record;
        # this check is about the shape of the graph, not about which equal union was built first)
        gen.one_order_per_member_set(world, roots)
        steps = []
        n = rng.randint(1, 12 if tier == "quick" else 30)
        graphs = []
        while len(steps) < n:
            r = rng.random()
            if steps and "clear" in sw and r < 0.1:
                steps.append({"op": "clear", "group": rng.choice(["all", "graph", "predicates", "refs"])})
                continue
            if steps and "clear_typing" in sw and r < 0.14:
                steps.append({"op": "clear_typing"})
                continue
            if steps and "reload" in sw and r < 0.2:
                # the world's modules are executed again: new class objects under the old names; graphs
                # built from now on are about the new classes
                steps.append({"op": "reload"})
                graphs = []
                continue
            if graphs and "mutate_returned" in sw and r < 0.3:
                steps.append({"op": "graph_mutate", "ref": rng.choice(graphs), "how": rng.choice(["append", "clear", "pop", "reverse", "setitem"])})
                continue
            t = rng.choice(roots)
            sp = rng.choice(SPELLINGS) if "spelling" in sw else rng.choice(["type", "type", "itertypes"])
            step = {"op": "graph", "t": t, "spelling": sp, "mod": _home(t, mods, rng)}
            if len(same) > 1 and rng.random() < 0.3:
                # the bare name, issued from its own module: 'VwSame' (same text from every module)
                t = rng.choice(same)
                step = {"op": "graph", "t": t, "spelling": rng.choice(["str", "str", "fref", "type"]), "mod": t["m"]}
            if "stack" in sw and rng.random() < 0.2:
                step["depth"] = rng.randint(1, 30)
            if "exhaust_scan" in sw and rng.random() < 0.35:
                # the walk is first attempted from every stack depth at which it cannot complete
                step["scan"] = True
            steps.append(step)
            graphs.append(len(steps) - 1)
        return {"prop": self.ID, "seed": seed, "tier": tier, "world": world, "env": env, "steps": steps_with_ids(steps), "meta": {"swarm": sw}}

    def comparable(self, sess, i, step):
        return False

    def pre_run(self, sess):
        sess.base_render = {}  # type key -> rendering of the evaluated-type answer (all but the root label)
        sess.tmp = 0

    def exec_op(self, sess, i, step):
        from typelib import graph

        op = step["op"]
        if op == "graph_mutate":
            seq = sess.results.get(step["ref"])
            fired = False
            if isinstance(seq, list):
                try:
                    if step["how"] == "append":
                        seq.append(seq[0] if seq else None)
                    elif step["how"] == "clear":
                        fired = bool(seq)
                        seq.clear()
                    elif step["how"] == "pop" and seq:
                        seq.pop()
                    elif step["how"] == "reverse":
                        seq.reverse()
                    elif step["how"] == "setitem" and seq:
                        seq[-1] = seq[0]
                    fired = True
                except Exception:
                    fired = False
            if fired:
                sess.faults["mutate_returned"] += 1
                sess.fault_fired_before = True
            return Outcome(True, "mutated" if fired else "not-mutable")
        if op == "reload":
            sess.world.reload()
            sess.base_render.clear()
            sess.results.clear()
            sess.faults["reload"] += 1
            sess.fault_fired_before = True
            return Outcome(True, "reloaded")
        if op != "graph":
            return None
        mod = step["mod"]
        T = sess.T(step)
        src = model.tsrc(step["t"], mod)
        sp = step["spelling"]
        gl = sess.world.modules[mod].__dict__
        fn = graph.static_order
        if sp == "type":
            arg = T
        elif sp == "itertypes":
            arg = T
            fn = lambda a: [*graph.itertypes(a)]  # noqa: E731
        elif sp == "str":
            arg = src
        elif sp == "fref":
            arg = typing.ForwardRef(src, module=mod)
        else:
            sess.tmp += 1
            name = f"VwTmp{sess.tmp}"
            ctor = "NewType" if sp == "newtype" else "TypeAliasType"
            try:
                arg = eval(f"typing.{ctor}({name!r}, {src})", gl)
            except TypeError:
                arg = T
                sp = "type"
        if step.get("scan"):
            sess.scan_exhaust(step, fn, arg)
        out = sess.guarded(sess.call, step, fn, arg)
        sess._c09 = (T, arg, sp)
        if out.ok:
            sess.results[step["id"]] = out.value
            return Outcome(True, render(out.value, drop_last_label=sp in ("newtype", "alias")))
        return out

    def nontrivial(self, sess, i, step, out, hit_delta):
        if step["op"] != "graph":
            return False
        return core.jdump(step["t"]) in sess.base_render or sess.fault_fired_before

    def check(self, sess, i, step, out):
        from typelib.py import refs

        if step["op"] != "graph":
            return
        T, arg, sp = sess._c09
        tsrc = model.tsrc(step["t"], step["mod"])
        if not out.ok:
            sess.violation("graph-raised", i, {"t": tsrc, "spelling": sp, "exc": f"{type(out.exc).__name__}: {out.exc}"[:240]},
                           sig=f"graph-raised:{type(out.exc).__name__}:{sp}")
            return
        nodes = sess.results[step["id"]]
        if sp in ("newtype", "alias"):
            if nodes and not (getattr(nodes[-1], "type", None) is arg):
                sess.violation("graph-invariant", i, {"t": tsrc, "rule": "root-not-last", "spelling": sp}, sig=f"invariant:root-not-last:{sp}")
                return
        err = check_graph(nodes, T, refs.evaluate, root_is_label=sp in ("newtype", "alias"))
        if err is not None:
            sess.violation("graph-invariant", i, {"t": tsrc, "rule": err[0], "detail": err[1], "spelling": sp, "nodes": _s(render(nodes))},
                           sig=f"invariant:{err[0]}")
            return
        # spellings and repeated calls agree (up to the root label)
        key = core.jdump(step["t"]) + "@" + step["mod"]
        mine = render(nodes, drop_last_label=True)
        base = sess.base_render.get(key)
        alias_now = _union_spelling_alias_at_work(nodes)
        flags = sess.__dict__.setdefault("base_alias", {})
        if base is None:
            sess.base_render[key] = mine
            flags[key] = alias_now
        elif base != mine:
            sig = f"graph-differs:{sp}:{'after-mutation' if sess.faults['mutate_returned'] else 'plain'}"
            if (alias_now or flags.get(key)) and _differ_in_union_rows_only(base, mine):
                # the recorded spelling alias of the predicate memos (C17 history:union-spelling-alias), seen from the graph:
                # whether a union met again gets a flagged node follows issubscriptedgeneric(), which is answering for this
                # union object with the answer of an equal union of the other spelling (shown on the spot, below)
                sig = "graph-differs:union-spelling-alias"
            sess.violation("graph-differs", i, {"t": tsrc, "spelling": sp, "first": _s(base), "now": _s(mine)}, sig=sig)


def _home(t, mods, rng):
    """A module from which every reference in t can be named."""
    return rng.choice(mods)


def _s(x, n=400):
    s = core.jdump(x) if not isinstance(x, str) else x
    return s if len(s) <= n else s[:n] + "..."


def _signature_only_owner(n, nodes) -> bool:
    """Is there a class in the graph whose member types Python itself finds on the constructor only
    (typing.get_type_hints(cls) is empty) and whose parameter ``n.var`` is annotated with exactly the text
    the reference node carries?"""
    import inspect

    cands = []
    for m in nodes:
        for c in (m.type, m.unwrapped):
            for _ in range(8):  # through NewTypes and value aliases
                nxt = getattr(c, "__supertype__", None) or (getattr(c, "__value__", None) if isinstance(c, typing.TypeAliasType) else None)
                if nxt is None:
                    break
                c = nxt
            cands.append(c)
    for c in cands:
        if not inspect.isclass(c) or getattr(c, "__module__", None) != n.type.__forward_module__:
            continue
        try:
            if typing.get_type_hints(c):
                continue
        except Exception:  # noqa: BLE001
            pass
        try:
            p = inspect.signature(c).parameters.get(n.var)
        except (TypeError, ValueError):
            continue
        if p is not None and p.annotation == n.type.__forward_arg__:
            return True
    return False


def _is_union(t) -> bool:
    import types

    return isinstance(t, types.UnionType) or typing.get_origin(t) is typing.Union


def _union_spelling_alias_at_work(nodes) -> bool:
    """Is the memoised issubscriptedgeneric() answering, for a union in this graph, differently from what the
    function itself computes for that very object (i.e. with the answer memoised for an equal union written in the
    other spelling)?  A direct observation of the cause, not an inference from the history."""
    from typelib.py import inspection

    fn = inspection.issubscriptedgeneric
    raw = getattr(fn, "__wrapped__", None)
    if raw is None:
        return False
    for n in nodes:
        for t in (getattr(n, "unwrapped", None), getattr(n, "type", None)):
            if _is_union(t):
                try:
                    if bool(fn(t)) != bool(raw(t)):
                        return True
                except Exception:  # noqa: BLE001
                    pass
    return False


def _differ_in_union_rows_only(a, b) -> bool:
    """The two renderings differ by rows about unions only (a union met again: flagged node or none)."""
    ka = [core.jdump(r) for r in a]
    kb = [core.jdump(r) for r in b]
    rest_a, rest_b = list(ka), list(kb)
    for k in ka:
        if k in rest_b:
            rest_b.remove(k)
            rest_a.remove(k)
    extra = [core.jload(k) if hasattr(core, "jload") else __import__("json").loads(k) for k in rest_a + rest_b]
    return bool(extra) and all(isinstance(r, list) and isinstance(r[0], str) and r[0].startswith("Union[") for r in extra)


PROP = C09()
