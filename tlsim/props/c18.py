"""C18 - generic item and value iteration is lossless and non-destructive."""

from __future__ import annotations

import collections
import copy
import dataclasses
import types

from .. import core, hist, model
from ..session import Outcome
from . import PropBase, steps_with_ids

WORLD_SRC0 = '''
@dataclasses.dataclass
class VwDC:
    a: typing.Any
    b: typing.Any = None
    _p: typing.Any = "private"
    K: typing.ClassVar[int] = 7

class VwNT(typing.NamedTuple):
    first: typing.Any
    second: typing.Any = None

@dataclasses.dataclass
class VwDCInit:
    """annotations that are not fields: an init-only variable"""
    a: typing.Any
    b: typing.Any = None
    scale: dataclasses.InitVar[int] = 2

class VwAnnBase:
    revision: int = 0
    source: str = "n/a"

@dataclasses.dataclass
class VwDCOnBase(VwAnnBase):
    """a dataclass on a plain annotated base: the base's annotated class attributes are not dataclass fields"""
    a: typing.Any
    b: typing.Any = None

class VwDeepHints:
    """annotated attributes beyond the constructor's parameters, one of them nested several levels deep"""
    name: typing.Any
    retries: int = 3
    routes: "dict[str, list[dict[str, tuple[int, ...]]]] | None" = None
    def __init__(self, name, b=None):
        self.name = name

# objects that are falsy although they have fields (an empty page, a zero amount, a disabled flag)
@dataclasses.dataclass
class VwDCFalsy:
    a: typing.Any
    b: typing.Any = None
    def __len__(self):
        return 0

class VwNTFalsy(typing.NamedTuple):
    first: typing.Any
    second: typing.Any = None
    def __bool__(self):
        return False

class VwSlotsFalsy:
    __slots__ = ("a", "b")
    def __init__(self, a, b=None):
        self.a = a
        self.b = b
    def __bool__(self):
        return False

class VwNT1(typing.NamedTuple):
    only: typing.Any

class VwPlain:
    a: typing.Any
    b: typing.Any
    _p: typing.Any
    def __init__(self, a, b=None):
        self.a = a
        self.b = b
        self._p = "private"

class VwPlainCV:
    a: typing.Any
    K: typing.ClassVar[int] = 7
    kind: typing.ClassVar = "shape"   # the bare qualifier
    def __init__(self, a, b=None):
        self.a = a

class VwSlots:
    __slots__ = ("a", "b", "_p")
    def __init__(self, a, b=None):
        self.a = a
        self.b = b
        self._p = "private"

class VwSlotsPos:
    """slots-only, and the constructor's parameters do not name the fields: the declared
    order of __slots__ is the only order there is"""
    __slots__ = ("x", "y", "zed", "w", "_p", "kappa")
    def __init__(self, *args):
        self.x, self.y = args[0], args[1]
        self.zed, self.w, self.kappa = 3, "w", None
        self._p = "private"

class VwSlotsPosSub(VwSlotsPos):
    __slots__ = ("extra",)
    def __init__(self, *args):
        super().__init__(*args)
        self.extra = "e"

class VwSlotsOne(VwSlotsPos):
    """a lone string names a single slot"""
    __slots__ = "single"
    def __init__(self, *args):
        super().__init__(*args)
        self.single = 5

class VwPosSlots:
    """slots-only; the constructor mixes a positional-only parameter with ordinary ones"""
    __slots__ = ("ident", "name", "size", "_p")
    def __init__(self, ident, /, name=None, size=0):
        self.ident, self.name, self.size, self._p = ident, name, size, "private"

class VwPosVars:
    """vars-only, same constructor shape"""
    def __init__(self, ident, /, name=None, *, size=0):
        self.ident, self.name, self.size, self._p = ident, name, size, "private"

class VwVars:
    def __init__(self, a, b=None):
        self.a = a
        self.b = b
        self._p = "private"

class VwVarsDyn:
    """vars-only (no hints, no slots, no constructor parameters): the attribute set and order
    differ from instance to instance"""
    def __init__(self):
        pass

class VwMap(collections.abc.Mapping):
    def __init__(self, pairs):
        self._d = dict(pairs)
    def __getitem__(self, k):
        return self._d[k]
    def __iter__(self):
        return iter(self._d)
    def __len__(self):
        return len(self._d)

class VwDictSub(dict):
    """a dict subclass that presents a filtered view of its storage (consistently, through every accessor)"""
    def _ok(self, k):
        return not (isinstance(k, str) and k.startswith("_"))
    def __iter__(self):
        return (k for k in dict.__iter__(self) if self._ok(k))
    def keys(self):
        return [k for k in dict.__iter__(self) if self._ok(k)]
    def items(self):
        return [(k, dict.__getitem__(self, k)) for k in dict.__iter__(self) if self._ok(k)]
    def values(self):
        return [dict.__getitem__(self, k) for k in dict.__iter__(self) if self._ok(k)]
    def __len__(self):
        return len(self.keys())

class VwSame:
    a: typing.Any
    def __init__(self, a, b=None):
        self.a = a
'''
WORLD_SRC1 = '''
class VwSame:
    z: typing.Any
    y: typing.Any
    def __init__(self, a, b=None):
        self.z = a
        self.y = b
'''

CLASSES = ["VwDCInit", "VwDCOnBase", "VwDeepHints", "VwDeepHints", "VwDCFalsy", "VwNTFalsy", "VwSlotsFalsy", "VwDC", "VwNT", "VwNT1", "VwPlain", "VwPlainCV", "VwSlots", "VwSlotsPos", "VwSlotsPos", "VwSlotsPosSub", "VwSlotsOne", "VwPosSlots", "VwPosVars", "VwVars", "VwVarsDyn", "VwVarsDyn", "vw0same", "vw1same"]
# expected public (field, attribute) names per class, in order
PUBLIC = {
    "VwDCInit": ["a", "b"], "VwDCOnBase": ["a", "b"],
    "VwDeepHints": ["name", "retries", "routes"],
    "VwDCFalsy": ["a", "b"], "VwNTFalsy": ["first", "second"], "VwSlotsFalsy": ["a", "b"],
    "VwDC": ["a", "b"], "VwNT": ["first", "second"], "VwNT1": ["only"], "VwPlain": ["a", "b"], "VwPlainCV": ["a"],
    "VwSlots": ["a", "b"], "VwSlotsPos": ["x", "y", "zed", "w", "kappa"], "VwSlotsPosSub": ["x", "y", "zed", "w", "kappa", "extra"], "VwSlotsOne": ["x", "y", "zed", "w", "kappa", "single"], "VwPosSlots": ["ident", "name", "size"], "VwPosVars": ["ident", "name", "size"], "VwVars": ["a", "b"], "vw0same": ["a"], "vw1same": ["z", "y"],
}


class StreamError(RuntimeError):
    pass


def _gen(items, fail_at):
    i = 0
    while True:
        if fail_at is not None and i == fail_at:
            raise StreamError(f"stream failed at {i}")
        if i >= len(items):
            return
        yield items[i]
        i += 1


class _Stream:
    """A cursor / response-body style object: it has __iter__ only, and that returns the same one-shot iterator each time."""

    def __init__(self, items):
        self._it = iter(list(items))

    def __iter__(self):
        return self._it


class _Iter:
    def __init__(self, items, fail_at):
        self.items = list(items)
        self.i = 0
        self.fail_at = fail_at

    def __iter__(self):
        return self

    def __next__(self):
        if self.fail_at is not None and self.i == self.fail_at:
            self.fail_at = None
            raise StreamError(f"stream failed at {self.i}")
        if self.i >= len(self.items):
            raise StopIteration
        v = self.items[self.i]
        self.i += 1
        return v


def _world():
    return {"modules": [
        {"name": "vw0", "future": False, "decls": [{"d": "raw", "n": "VwDC", "src": WORLD_SRC0}]},
        {"name": "vw1", "future": False, "decls": [{"d": "raw", "n": "VwSame", "src": WORLD_SRC1}]},
    ]}


ELEMS = [0, 1, "a", "ab", "abc", "", None, True, {"$f": "1.5"}, {"$tuple": [1, 2]}, {"$tuple": ["k", "v"]}, {"$list": [1, 2]},
         {"$list": [1, 2, 3]}, {"$tuple": []}, {"$dict": [["a", 1], ["b", 2]]}, {"$set": [1, 2]}, {"$b": "6162"}, {"$b": "61"},
         {"$tuple": [1]}, {"$list": [{"$tuple": [1, 2]}, 3]}]
PAIRS = [{"$tuple": ["k1", 1]}, {"$tuple": ["k2", {"$list": [1]}]}, {"$list": ["k3", 3]}, {"$tuple": [1, 2]}, "ab", {"$tuple": [None, None]}]
HASHABLE = [0, 1, "a", "ab", None, True, {"$tuple": [1, 2]}, {"$tuple": ["k", "v"]}, {"$b": "6162"}, {"$f": "2.5"}, {"$tuple": []}]


def _elems(rng, n, pool=None):
    pool = pool or ELEMS
    return [copy.deepcopy(rng.choice(pool)) for _ in range(n)]


def gen_x(rng):
    kind = core.weighted(rng, [(4, "map"), (6, "struct"), (5, "seq"), (2, "set"), (5, "stream"), (1, "text")])
    n = rng.choice([0, 0, 1, 2, 3, 5])
    if kind == "map":
        keys = rng.sample(["a", "b", "c", 1, 2, "ab", None, True, "_h"], min(n, 6))
        pairs = [[k, copy.deepcopy(rng.choice(ELEMS))] for k in keys]
        return {"x": core.weighted(rng, [(4, "dict"), (1, "odict"), (1, "mproxy"), (2, "cmap"), (2, "odict_moved"), (2, "dictsub"), (1, "ddict")]),
                "pairs": pairs, "move": [rng.randint(0, 5), rng.random() < 0.5]}
    if kind == "struct":
        cls = rng.choice(CLASSES)
        first = rng.choice(ELEMS + PAIRS + PAIRS)
        return {"x": "struct", "cls": cls, "a": copy.deepcopy(first), "b": copy.deepcopy(rng.choice(ELEMS))}
    if kind == "seq":
        pairs = rng.random() < 0.4
        items = _elems(rng, n, PAIRS if pairs else None)
        if items and rng.random() < 0.3:
            items[0] = copy.deepcopy(rng.choice(PAIRS))  # pair-looking first element, non-pairs after
        return {"x": rng.choice(["list", "tuple", "deque"]), "items": items}
    if kind == "set":
        items = []
        # the first element decides pairs-vs-enumerate, and a set's first element depends on the
        # hash seed: keep a set homogeneous so that its outcome *shape* does not
        pool = [e for e in HASHABLE if _first_is_pair({"a": e})] if rng.random() < 0.3 else [e for e in HASHABLE if not _first_is_pair({"a": e})]
        for e in _elems(rng, n, pool):
            if not any(core.jdump(e) == core.jdump(o) or (e in (1, True) and o in (1, True)) or (e in (0, False) and o in (0, False)) for o in items):
                items.append(e)
        return {"x": rng.choice(["set", "frozenset"]), "items": items}
    if kind == "stream":
        pairs = rng.random() < 0.5
        items = _elems(rng, n, PAIRS if pairs else None)
        fail_at = None
        if rng.random() < 0.3:
            fail_at = rng.randint(0, len(items))
        return {"x": rng.choice(["gen", "iter", "listiter", "mapiter", "stream"]), "items": items, "fail_at": fail_at}
    return {"x": rng.choice(["str", "bytes"]), "text": rng.choice(["", "a", "ab", "abc", "hello"])}


class C18(PropBase):
    ID = "C18"
    QUICK_RUNS = 5000
    THOROUGH_RUNS = 300000
    QUICK_BUDGET_S = 45
    THOROUGH_BUDGET_S = 420
    FAULT_KINDS = ("stream_error", "stream_empty", "clear", "interleave", "same_name", "exhaust_scan")
    RULE = (
        "A case is one iteritems/itervalues call (or two result iterators consumed alternately) on a generated input: mappings "
        "(dict, OrderedDict, MappingProxyType, custom Mapping), structured instances of every flavour (dataclass with private and "
        "ClassVar fields, named tuples whose first field is a 2-element value, annotated plain, slots-only, vars-only, same-named "
        "classes in two modules), sequences/sets/deques, str/bytes and one-shot iterators (generators, class iterators, "
        "list/dict iterators) of pairs and non-pairs. Non-trivial: the input is a one-shot stream (empty, or failing after k "
        "elements), or follows a cleared strategy memo, or is consumed interleaved, or its class name was seen with another class "
        "before; distinct = distinct (operation digest, pre-state) pairs."
        ' Mappings include a re-ordered OrderedDict, a defaultdict and a dict subclass presenting a filtered view; the model is what the mapping itself reports.'
    )
    ASSUMPTIONS = ["'iterable of pairs' is decided the way the library documents it: by the first element being a sized collection of length 2 (2-character strings included)",
                   "set inputs are compared with the iteration order of the same set object in the same process"]

    def gen(self, seed, tier):
        rng = core.rng_for(seed, "gen")
        sw = hist.swarm(rng, ("clear", "exhaust_scan"))
        steps = []
        n = rng.randint(1, 12 if tier == "quick" else 30)
        while len(steps) < n:
            if sw.get("clear") and steps and rng.random() < sw["clear"]:
                steps.append({"op": "clear", "group": rng.choice(["iter", "predicates", "all"])})
                continue
            r = rng.random()
            if r < 0.12:
                steps.append({"op": "interleave", "fn": rng.choice(["items", "values"]), "xs": [gen_x(rng), gen_x(rng)]})
            else:
                steps.append({"op": rng.choice(["items", "items", "values"]), "x": gen_x(rng)})
                if "exhaust_scan" in sw and steps[-1]["x"].get("x") == "struct" and rng.random() < 0.5:
                    # the first use of the class's iteration strategy is attempted from every stack depth at which it cannot complete
                    steps[-1]["scan"] = True
        return {"prop": self.ID, "seed": seed, "tier": tier, "world": _world(), "env": self.base_env(rng, fault_free=True),
                "steps": steps_with_ids(steps), "meta": {"swarm": sw}}

    # ------------------------------------------------------------------ building inputs and the model
    def build_x(self, sess, spec):
        """Returns (x, expected item list or None, expected value list, info)."""
        kind = spec["x"]
        V = sess.V
        m0 = sess.world.modules["vw0"]
        m1 = sess.world.modules["vw1"]
        if kind in ("dict", "odict", "mproxy", "cmap", "odict_moved", "dictsub", "ddict"):
            pairs = [(V(k), V(v)) for k, v in spec["pairs"]]
            d = dict(pairs)
            x = {"dict": lambda: d, "odict": lambda: collections.OrderedDict(pairs), "mproxy": lambda: types.MappingProxyType(d),
                 "cmap": lambda: m0.VwMap(pairs), "odict_moved": lambda: collections.OrderedDict(pairs), "dictsub": lambda: m0.VwDictSub(pairs),
                 "ddict": lambda: collections.defaultdict(list, pairs)}[kind]()
            if kind == "odict_moved" and len(x) >= 2:
                # an order the mapping reports but its underlying storage does not have
                idx, last = spec.get("move", [0, True])
                x.move_to_end(list(x)[idx % len(x)], last=last)
            # the model: the pairs the mapping itself reports, in its own order
            items = [(k, x[k]) for k in x]
            return x, items, [v for _, v in items], {"reiterable": True}
        if kind == "struct":
            cname = spec["cls"]
            cls = {"vw0same": m0.VwSame, "vw1same": m1.VwSame}.get(cname) or getattr(m0, cname)
            a, b = V(spec["a"]), V(spec["b"])
            if cname == "VwVarsDyn":
                x = cls()
                order = [("b", b), ("a", a)] if isinstance(a, str) else ([("a", a)] if b is None else [("a", a), ("extra", 1), ("b", b)])
                for k, v in order:
                    setattr(x, k, v)
                x._hidden = "private"
            else:
                x = cls(a) if cname == "VwNT1" else cls(a, b)
            if cname == "VwVarsDyn":
                # the model: the public instance attributes, in the instance's own order
                items = [(k, v) for k, v in vars(x).items() if not k.startswith("_")]
            else:
                names = PUBLIC[cname]
                vals = {"a": a, "b": b, "first": a, "second": b, "only": a, "z": a, "y": b, "name": a, "retries": 3, "routes": None}
                if cname in ("VwSlotsPos", "VwSlotsPosSub", "VwSlotsOne"):
                    vals = {"x": a, "y": b, "zed": 3, "w": "w", "kappa": None, "extra": "e", "single": 5}
                if cname in ("VwPosSlots", "VwPosVars"):
                    vals = {"ident": a, "name": b, "size": 0}
                items = [(nm, vals[nm]) for nm in names]
            return x, items, [v for _, v in items], {"reiterable": True, "struct": True}
        if kind in ("list", "tuple", "deque", "set", "frozenset"):
            elems = [V(e) for e in spec["items"]]
            x = {"list": list, "tuple": tuple, "deque": collections.deque, "set": set, "frozenset": frozenset}[kind](elems)
            order = list(x)
            return x, _pairs_or_enum(order), order, {"reiterable": True}
        if kind in ("gen", "iter", "listiter", "mapiter", "stream"):
            elems = [V(e) for e in spec["items"]]
            fa = spec.get("fail_at")
            if kind == "gen":
                x = _gen(elems, fa)
            elif kind == "iter":
                x = _Iter(elems, fa)
            elif kind == "stream":
                x = _Stream(elems)  # iterable, not an iterator: every iter() is the one stored cursor
                fa = None
            elif kind == "listiter":
                x = iter(list(elems))
                fa = None
            else:
                x = iter(elems) if not elems else map(lambda e: e, elems)
                fa = None
            upto = elems if fa is None else elems[:fa]
            return x, _pairs_or_enum(elems), list(elems), {"reiterable": False, "fail_at": fa, "n": len(elems), "prefix_len": len(upto)}
        if kind in ("str", "bytes"):
            x = spec["text"] if kind == "str" else spec["text"].encode()
            order = list(x)
            return x, list(enumerate(order)), order, {"reiterable": True}
        raise ValueError(kind)

    # ------------------------------------------------------------------ execution
    def pre_run(self, sess):
        sess.seen_class_names = {}

    def exec_op(self, sess, i, step):
        from typelib import serdes

        op = step["op"]
        if op in ("items", "values"):
            x, eitems, evalues, info = self.build_x(sess, step["x"])
            before = model.canon(x) if info["reiterable"] else None
            fn = serdes.iteritems if op == "items" else serdes.itervalues
            if step.get("scan") and info.get("struct"):
                sess.scan_exhaust({"mod": "vw0"}, _all_of, fn, x)
            got, exc = _consume(lambda: fn(x))
            after = model.canon(x) if info["reiterable"] else None
            sess._c18 = (eitems if op == "items" else evalues, info, got, exc, before, after)
            if exc is not None:
                return Outcome(False, exc=exc)
            return Outcome(True, _digest_view(step["x"], op, got))
        if op == "interleave":
            fn = serdes.iteritems if step["fn"] == "items" else serdes.itervalues
            built = [self.build_x(sess, s) for s in step["xs"]]
            outs = [[], []]
            errs = [None, None]
            try:
                its = []
                for b in built:
                    try:
                        its.append(iter(fn(b[0])))
                    except Exception as e:  # noqa: BLE001
                        its.append(None)
                        errs[len(its) - 1] = e
                live = [it is not None for it in its]
                while any(live):
                    for k in (0, 1):
                        if live[k]:
                            try:
                                outs[k].append(next(its[k]))
                            except StopIteration:
                                live[k] = False
                            except Exception as e:  # noqa: BLE001
                                errs[k] = e
                                live[k] = False
            finally:
                pass
            sess._c18 = (built, outs, errs)
            sess.faults["interleave"] += 1
            return Outcome(True, [[_digest_view(step["xs"][k], step["fn"], outs[k]) for k in (0, 1)],
                                  [type(e).__name__ if e else None for e in errs]])
        return None

    def unordered(self, sess, i, step):
        specs = step.get("xs") or [step.get("x", {})]
        return any(sp.get("x") in ("set", "frozenset") and len(sp.get("items", ())) >= 2 for sp in specs) or None

    def nontrivial(self, sess, i, step, out, hit_delta):
        if step["op"] == "interleave":
            return True
        spec = step.get("x", {})
        if spec.get("x") in ("gen", "iter", "listiter", "mapiter", "stream"):
            return True
        if spec.get("cls") in ("vw0same", "vw1same", "VwVarsDyn"):
            return True
        return sess.fault_fired_before

    def check(self, sess, i, step, out):
        if step["op"] in ("items", "values"):
            expected, info, got, exc, before, after = sess._c18
            self._judge(sess, i, step["op"], step["x"], expected, info, got, exc, before, after)
        elif step["op"] == "interleave":
            built, outs, errs = sess._c18
            for k in (0, 1):
                x, eitems, evalues, info = built[k]
                self._judge(sess, i, step["fn"], step["xs"][k], eitems if step["fn"] == "items" else evalues, info, outs[k], errs[k], None, None,
                            tag="interleaved")

    def _judge(self, sess, i, op, spec, expected, info, got, exc, before, after, tag=""):
        kind = spec["x"]
        fa = info.get("fail_at")
        if kind in ("gen", "iter", "listiter", "mapiter", "stream"):
            if info["n"] == 0:
                sess.faults["stream_empty"] += 1
                sess.fault_fired_before = True
            if fa is not None:
                sess.faults["stream_error"] += 1
                sess.fault_fired_before = True
        sig_base = f"{op}:{kind}:{spec.get('cls', '')}{':' + tag if tag else ''}"
        cg = model.canon(got)
        if fa is not None:
            # injected stream error: it must surface, and what was yielded before is a prefix
            if exc is None or not isinstance(exc, StreamError):
                sess.violation("stream-error-lost", i, {"spec": _s(spec), "exc": repr(exc), "got": _s(cg)}, sig="stream-error-lost:" + sig_base)
                return
            ce = model.canon(expected[: len(got)])
            if cg != ce or len(got) > info["prefix_len"]:
                sess.violation("not-a-prefix", i, {"spec": _s(spec), "got": _s(cg), "expected_prefix_of": _s(model.canon(expected))},
                               sig="not-a-prefix:" + sig_base)
            return
        if exc is not None:
            empty = kind in ("gen", "iter", "listiter", "mapiter", "stream") and info["n"] == 0
            sess.violation("raised", i, {"spec": _s(spec), "exc": f"{type(exc).__name__}: {exc}"[:200]},
                           sig=f"raised:{type(exc).__name__}:{sig_base}:{'empty-stream' if empty else 'nonempty'}")
            return
        ce = model.canon(expected)
        if cg != ce:
            first2 = _first_is_pair(spec)
            sess.violation("wrong-items", i, {"spec": _s(spec), "got": _s(cg), "expected": _s(ce)},
                           sig=f"wrong-items:{sig_base}:{'first-elem-2' if first2 else 'plain'}")
        if before is not None and before != after:
            sess.violation("input-modified", i, {"spec": _s(spec)}, sig="input-modified:" + sig_base)


def _all_of(fn, x):
    return list(fn(x))


def _digest_view(spec, op, got):
    """What goes into the run digest: for set inputs the index a value is enumerated under
    depends on the hash seed, so only the multiset of elements is logged."""
    if spec.get("x") in ("set", "frozenset") and op == "items" and not _first_is_pair({"a": (spec.get("items") or [None])[0]}):
        return ["multiset", [e[1] if isinstance(e, tuple) and len(e) == 2 else e for e in got]]
    return got


def _first_is_pair(spec):
    a = spec.get("a")
    if a is None and spec.get("items"):
        a = spec["items"][0]
    if isinstance(a, str):
        return len(a) == 2
    if isinstance(a, dict):
        for tag in ("$tuple", "$list", "$set"):
            if tag in a:
                return len(a[tag]) == 2
        if "$dict" in a:
            return len(a["$dict"]) == 2
        if "$b" in a:
            return len(a["$b"]) == 4
    return False


def _pairs_or_enum(elems):
    """The documented detection: the first element decides."""
    if elems:
        p = elems[0]
        try:
            is_pair = isinstance(p, (list, set, tuple, frozenset, dict, str, bytes, collections.deque)) and len(p) == 2
        except TypeError:
            is_pair = False
        if is_pair:
            return list(elems)
    return list(enumerate(elems))


def _consume(make):
    got = []
    try:
        for e in make():
            got.append(e)
    except Exception as e:  # noqa: BLE001
        return got, e
    return got, None


def _s(x, n=300):
    s = core.jdump(x) if not isinstance(x, str) else x
    return s if len(s) <= n else s[:n] + "..."


PROP = C18()
