"""C12 - results depend only on (type, input), never on call history."""

from __future__ import annotations

import copy

from .. import core, gen, hist, model, seams
from . import PropBase, steps_with_ids

FAULTS = ("clear", "clear_typing", "shrink", "mutate_result", "mutate_input", "twin", "clock", "zone", "stack", "exhaust_scan")


class C12(PropBase):
    ID = "C12"
    NEEDS_COLD = True
    REPLICAS = 2
    QUICK_RUNS = 1500
    THOROUGH_RUNS = 40000
    QUICK_BUDGET_S = 60
    THOROUGH_BUDGET_S = 900
    RUN_TIMEOUT_S = {"quick": 90.0, "thorough": 400.0}
    FAULT_KINDS = FAULTS
    RULE = (
        "A case is one executed operation (build/marshal/unmarshal/encode/decode/roundtrip/call) of a seeded history over a "
        "generated world; it is non-trivial when a fault fired earlier in the run or the operation read a memo entry written "
        "by an earlier operation (cache hit delta > 0); distinct = distinct (operation digest, pre-state signature) pairs. "
        "Every operation is compared with the same operation executed alone in a fork of the pristine process."
        ' Under the swept exhaustion fault a build/marshal/unmarshal is first issued from every stack depth at which it cannot complete; unions whose earlier member takes only some values of a class are over-represented on the marshal side.'
        ' s_iter_late: an Iterator[T] target is fed from a writable buffer which the caller overwrites after the call returned and before the iterator is read; expected = the same message alone, read at once.'
    )
    ASSUMPTIONS = [
        "cold reference = fork of a template that imported the library and called nothing, with the world loaded",
        "replica comparison skips steps whose input is documented as clock- or zone-relative (time-only text, naive temporals) "
        "and treats the outcome order of unordered inputs as a multiset",
    ]

    # ------------------------------------------------------------------ generation
    def gen(self, seed: int, tier: str) -> dict:
        rng = core.rng_for(seed, "gen")
        cfg = gen.Cfg.for_tier(tier, allow_bytes=True)
        sw = hist.swarm(rng, FAULTS)
        world, view = gen.gen_world(rng, cfg)
        lk = view.lookup()
        mods = [m["name"] for m in world["modules"]]
        env = self.base_env(rng, fault_free=not sw)
        items = []
        for t in gen.root_types(view, rng, cfg, rng.randint(2, 5)):
            variants = [t]
            if "twin" in sw:
                variants += hist.type_twins(rng, t)
            vals = []
            for _ in range(rng.randint(1, 3)):
                v, w = gen.gen_pair(rng, t, lk, cfg)
                vals.append((v, w))
                if "twin" in sw:
                    tv = hist.value_twin(rng, v)
                    if tv is not None:
                        vals.append((tv, w))
            items.append({"variants": variants, "vals": vals})
        if rng.random() < 0.35:
            # pass-through positions (Any, bare containers): what the text decoder returns reaches the
            # caller as it is - including tuples (Python-literal text) that hold lists and dicts
            t = rng.choice([{"k": "any"}, {"k": "bare", "n": "tuple"}, {"k": "bare", "n": "list"}, {"k": "raw", "src": "tuple[typing.Any, ...]"},
                            {"k": "raw", "src": "dict[str, typing.Any]"}, {"k": "raw", "src": "list[typing.Any]"}])
            lits = ["(1, [2, 3])", "{'a': (1, {'b': 2})}", "[1, (2, [3])]", "([], {})", "{'k': ([1], [2])}", "[[1, 2], [3]]", '{"a": [1, {"b": []}]}']
            # flat documents in between: what the memo made of one document says nothing about the next one
            # (not even when the next one's containers come to lie where the last one's were)
            flats = ["[1, 2, 3]", '{"a": 1, "b": 2}', "[4, 5]", '{"k": "v"}', "[7]"]
            vals = [(x, x) for x in rng.sample(lits, 3) + rng.sample(flats, 2)]
            items.append({"variants": [t], "vals": vals, "literal": True})
        if rng.random() < 0.3:
            # unions in which an earlier member takes only some values of a class that a later member
            # takes entirely: which member answers must follow from the value, never from which
            # values of that class were converted before
            I, S, F = {"k": "int"}, {"k": "str"}, {"k": "float"}
            sp = rng.choice(["pipe", "typing"])
            t, pool = rng.choice([
                ({"k": "union", "sp": sp, "a": [I, S]}, ["abc", "12", "x y", "7", "", "-1", "1.0"]),
                ({"k": "union", "sp": sp, "a": [F, S]}, ["abc", "1.5", "1e3", "x", "-0.0", "12"]),
                ({"k": "union", "sp": sp, "a": [I, F]}, [{"$f": "inf"}, {"$f": 1.5}, {"$f": "nan"}, {"$f": 2.0}, {"$f": "-inf"}, {"$f": -7.25}]),
                ({"k": "union", "sp": sp, "a": [{"k": "lit", "v": [1, 2]}, F]}, [3, 1, 5, 2, 0]),
                ({"k": "union", "sp": sp, "a": [{"k": "lit", "v": ["a", "b"]}, {"k": "list", "a": S}]}, ["a", "zz", "b", "q"]),
                ({"k": "list", "a": {"k": "union", "sp": sp, "a": [I, S]}}, [{"$list": ["7", "x"]}, {"$list": ["x"]}, {"$list": ["1"]}, {"$list": ["x", "7"]}]),
                ({"k": "dict", "a": [S, {"k": "union", "sp": sp, "a": [I, S]}]}, [{"$dict": [["a", "x"], ["b", "3"]]}, {"$dict": [["a", "3"]]}, {"$dict": [["b", "y"]]}]),
            ])
            vals = [(copy.deepcopy(v), copy.deepcopy(v)) for v in rng.sample(pool, min(len(pool), rng.randint(3, 5)))]
            items.append({"variants": [t], "vals": vals, "marshal_heavy": True})
            items.append(items[-1])  # twice as likely to be drawn
        if rng.random() < 0.25:
            # a class with an annotated private field and a class variable: what the routines of one
            # direction make of them must not depend on whether the other direction was built first
            world["modules"][0]["decls"].append({"d": "raw", "n": "VwPriv12", "src": (
                "@dataclasses.dataclass\nclass VwPriv12:\n    owner: str\n    _revision: int = 0\n    K: typing.ClassVar[int] = 7\n")})
            pt = {"k": "ref", "m": mods[0], "n": "VwPriv12"}
            pv = [({"$obj": f"{mods[0]}.VwPriv12", "f": {"owner": o, "_revision": r}}, {"$dict": [["owner", o], ["_revision", r]]})
                  for o, r in (("ann", 7), ("bo", 0), ("", -1))]
            items.append({"variants": [pt, {"k": "list", "a": pt}], "vals": pv, "priv": True})
            items.append(items[-1])
        if rng.random() < 0.2:
            # instances of a slots-only class (no annotations, no named constructor parameters) as inputs
            # of mapping / sequence targets: the second instance must be read like the first
            world["modules"][0]["decls"].append({"d": "raw", "n": "VwSlots12", "src": (
                "class VwSlots12:\n    __slots__ = ('x', 'y', '_p')\n    def __init__(self, **kw):\n"
                "        self.x = kw.get('x', 1)\n        self.y = kw.get('y', 2)\n        self._p = 0\n"
                "    def __eq__(self, o):\n        return type(o) is type(self) and (o.x, o.y) == (self.x, self.y)\n    __hash__ = None\n")})
            sv = [({"$obj": f"{mods[0]}.VwSlots12", "f": {"x": a, "y": b}},) * 2 for a, b in ((1, 2), (3, 4), ("5", "6"))]
            items.append({"variants": [{"k": "dict", "a": [{"k": "str"}, {"k": "int"}]}, {"k": "list", "a": {"k": "int"}}, {"k": "tuple", "a": [{"k": "int"}, {"k": "int"}]}],
                          "vals": sv, "instances": True})
            items.append(items[-1])
        if ("clock" in sw or "zone" in sw) and rng.random() < 0.5:
            # time-only text for date-bearing targets is placed on "today": the same text again after the
            # day has changed must be placed on the new day (lenient spellings included - what the date
            # parser accepts, not only what isoformat() writes)
            pool = ["9:30", "1:2:3", "09:30:5", "1:00", "12:00", "T1200", "23:59:59.5", "0:0", "now", "now"]
            tv = [(x, x) for x in rng.sample(pool, 3)]
            items.append({"variants": [{"k": "dt"}, {"k": "date"}, {"k": "list", "a": {"k": "dt"}}], "vals": tv, "timeonly": True})
            items.append(items[-1])
        retry = None
        if rng.random() < 0.3:
            # a small recursive class of the run's own: inputs that are refused deep inside the recursion,
            # repaired in place and submitted again as the same objects
            world["modules"][0]["decls"].append({"d": "raw", "n": "VwNode12", "src": (
                "@dataclasses.dataclass\nclass VwNode12:\n    v: int\n    nxt: 'VwNode12 | None' = None\n"
                "    kids: 'list[VwNode12]' = dataclasses.field(default_factory=list)\n")})
            retry = {"k": "ref", "m": mods[0], "n": "VwNode12"}
        steps: list[dict] = []
        n = rng.randint(2, 25 if tier == "quick" else 60)
        builds = []
        encodes = []
        fault_kinds = [k for k in sw if k not in ("twin", "stack", "exhaust_scan")]
        while len(steps) < n:
            if fault_kinds and steps and rng.random() < 0.25:
                k = rng.choice(fault_kinds)
                if rng.random() < sw[k] * 3:
                    f = hist.fault_step(rng, k, steps)
                    if f:
                        f["id"] = len(steps)
                        steps.append(f)
                        continue
            if retry is not None and rng.random() < 0.25:
                depth = rng.randint(1, 5)
                via = [rng.choice(["nxt", "kids"]) for _ in range(depth)]
                node = {"$dict": [["v", rng.randint(0, 9)]]}
                for e in reversed(via):
                    node = {"$dict": [["v", rng.randint(0, 9)], [e, node if e == "nxt" else {"$list": [node]}]]}
                path = []
                for e in via:
                    path += [e] if e == "nxt" else [e, 0]
                tt = rng.choice([retry, {"k": "list", "a": retry}])
                if tt["k"] == "list":
                    node, path = {"$list": [node]}, [0] + path
                steps.append({"id": len(steps), "op": "retry_repaired", "t": tt, "mod": mods[0], "x": node, "path": path, "field": "v",
                              "bad": rng.choice([{"$list": [{"$list": []}]}, "not-a-number", None])})
                continue
            it = rng.choice(items)
            t = rng.choice(it["variants"])
            v, w = rng.choice(it["vals"])
            if it.get("priv") and t["k"] == "list":
                v, w = {"$list": [copy.deepcopy(v)]}, {"$list": [copy.deepcopy(w)]}
            if it.get("timeonly"):
                x = hist.carry(v, rng.choice(["str", "str", "bytes"]))
                steps.append({"id": len(steps), "t": t, "mod": rng.choice(mods), "op": "unmarshal", "x": {"$list": [x]} if t["k"] == "list" else x})
                continue
            if it.get("literal") and ("clear" in sw or "shrink" in sw) and rng.random() < 0.3:
                # motif: a flat document, the text memo emptied, a nested document, the caller edits what it got,
                # the nested document again
                flat = rng.choice(["[1, 2, 3]", '{"a": 1, "b": 2}', "[4, 5]", "[7]", '{"k": "v"}'])
                nested = rng.choice(["[[1, 2], [3]]", '{"a": [1, {"b": []}]}', "[[1000], [1001], [1002]]", '{"x": {"y": [1]}}'])
                carrier = rng.choice(["str", "bytes"])
                mod_ = rng.choice(mods)
                for rep in range(rng.randint(1, 3)):
                    steps.append({"id": len(steps), "t": t, "mod": mod_, "op": "unmarshal", "x": hist.carry(flat, carrier)})
                steps.append({"id": len(steps), "op": "clear", "group": "values"} if "clear" in sw else {"id": len(steps), "op": "shrink", "name": "strload", "cap": 1})
                steps.append({"id": len(steps), "t": t, "mod": mod_, "op": "unmarshal", "x": hist.carry(nested, carrier)})
                steps.append({"id": len(steps), "op": "mutate_result", "ref": len(steps) - 1})
                steps.append({"id": len(steps), "t": t, "mod": mod_, "op": "unmarshal", "x": hist.carry(nested, carrier)})
                continue
            if rng.random() < 0.05:
                # motif: an iterator target fed from the caller's (writable) receive buffer; the caller re-uses the buffer
                # for the next message once the call has returned - before it reads the iterator
                a_, b_, tt = rng.choice([("[1, 2, 3]", "[7, 8, 9]", "typing.Iterator[int]"), ('["a", "b"]', '["c", "d"]', "collections.abc.Iterator[str]"),
                                         ("[[1], [2]]", "[[3], [4]]", "typing.Iterator[list[int]]"), ("[1, 2, 3]", "[4]", "typing.Iterator[int]")])
                steps.append({"id": len(steps), "op": "s_iter_late", "t": {"k": "raw", "src": tt}, "mod": rng.choice(mods), "a": a_, "b": b_,
                              "carrier": rng.choice(["bytearray", "view"])})
                continue
            if it.get("literal") and rng.random() < 0.12:
                # motif: a read-only view of a message slot, used again after the producer wrote the next message into it
                a_, b_ = rng.choice([("[1, 2, 3]", "[4, 5, 6]"), ('{"x": 1, "y": 2}', '{"x": 7, "y": 8}'), ("[[1], [2]]", "[[3], [4]]")])
                first = len(steps)
                steps.append({"id": first, "t": t, "mod": rng.choice(mods), "op": "unmarshal", "x": {"$mm": a_.encode().hex()}})
                steps.append({"id": len(steps), "op": "rewrite_slot", "ref": first, "hex": b_.encode().hex()})
                steps.append({"id": len(steps), "t": t, "mod": rng.choice(mods), "op": "unmarshal", "x": {"$mm": b_.encode().hex()}, "x_from": first})
                continue
            if it.get("literal"):
                # unmarshal the literal text in a text carrier; results are mutated by later faults
                steps.append({"id": len(steps), "t": t, "mod": rng.choice(mods), "op": "unmarshal", "x": hist.carry(v, rng.choice(["str", "str", "bytes", "mv"]))})
                if "mutate_result" in sw and rng.random() < 0.7:
                    steps.append({"id": len(steps), "op": "mutate_result", "ref": len(steps) - 1})
                continue
            step = {"id": len(steps), "t": t, "mod": rng.choice(mods)}
            if "stack" in sw and rng.random() < 0.3:
                step["depth"] = rng.randint(1, 40)
            kind = core.weighted(rng, [(2, "build"), (4, "marshal"), (6, "unmarshal"), (2, "encode"), (2, "decode"), (2, "roundtrip"), (2, "call")])
            if it.get("marshal_heavy"):
                kind = core.weighted(rng, [(6, "marshal"), (3, "encode"), (2, "unmarshal"), (1, "roundtrip")])
            if it.get("instances"):
                kind = "unmarshal"
            if kind == "build":
                step.update(op="build", kind=rng.choice(["marshaller", "unmarshaller", "codec"]))
                builds.append(step)
            elif kind == "marshal":
                step.update(op="marshal", v=v)
                if rng.random() < 0.1:
                    step["t"] = None
            elif kind == "unmarshal":
                step.update(op="unmarshal", x=copy.deepcopy(v) if it.get("instances") else self._input(rng, v, w))
            elif kind == "encode":
                step.update(op="encode", v=v, via=rng.choice(["top", "codec", "compose"]), peer=rng.choice(["default", "default", "json", "tag"]))
                encodes.append(step)
            elif kind == "decode":
                step.update(op="decode", via=rng.choice(["top", "codec", "compose"]))
                same_t = [e for e in encodes if core.jdump(e["t"]) == core.jdump(t)]
                if same_t and rng.random() < 0.6:
                    e = rng.choice(same_t)
                    step["from"] = e["id"]
                    step["peer"] = e["peer"]
                else:
                    txt = hist.json_text(w)
                    if txt is None:
                        continue
                    step["x"] = hist.carry(txt, "bytes")
                    step["peer"] = rng.choice(["default", "json"])
            elif kind == "roundtrip":
                step.update(op="roundtrip", v=v)
                mid = []
                for k in fault_kinds:
                    if k in ("clear", "shrink", "clock", "zone") and rng.random() < sw[k]:
                        f = hist.fault_step(rng, k, steps)
                        if f:
                            mid.append(f)
                if mid:
                    step["mid"] = mid
            else:
                b = [b for b in builds if b["kind"] in ("marshaller", "unmarshaller")]
                if b and rng.random() < 0.7:
                    h = rng.choice(b)
                    step.update(op="call", ref=h["id"], kind=h["kind"], t=h["t"], mod=h["mod"])
                else:
                    step.update(op="call", ref=None, kind=rng.choice(["marshaller", "unmarshaller"]))
                step["x"] = v if step["kind"] == "marshaller" else self._input(rng, v, w)
            if "exhaust_scan" in sw and step["op"] in ("build", "marshal", "unmarshal") and rng.random() < 0.15:
                # the operation is first issued from every stack depth at which it cannot complete:
                # what the aborted attempts leave behind must not change this or any later outcome
                step["scan"] = True
            steps.append(step)
        return {"prop": self.ID, "seed": seed, "tier": tier, "world": world, "env": env, "steps": steps_with_ids(steps),
                "meta": {"swarm": sw}}

    def _input(self, rng, v, w):
        r = rng.random()
        if isinstance(w, dict) and "$dict" in w and len(w["$dict"]) >= 1 and rng.random() < 0.08:
            # the wire mapping as a defaultdict with one key missing: a lookup of an absent key would
            # *insert* it - a routine that reads its input that way changes what the caller handed over
            pairs = copy.deepcopy(w["$dict"])
            pairs.pop(rng.randrange(len(pairs)))
            return {"$ddict": pairs}
        if r < 0.25:
            return copy.deepcopy(v)
        if r < 0.5:
            return copy.deepcopy(w)
        if r < 0.85:
            txt = hist.json_text(w) if rng.random() < 0.8 else hist.repr_text(w)
            if txt is not None:
                return hist.carry(txt, rng.choice(["str", "str", "bytes", "bytes", "mv"]))
            return copy.deepcopy(w)
        return hist.junk(rng)

    # ------------------------------------------------------------------ execution
    def pre_run(self, sess):
        sess.seen_containers = {}
        sess.keepalive = []

    def exec_op(self, sess, i, step):
        import typelib

        if step["op"] != "s_iter_late":
            return None
        T = sess.T(step)
        buf = bytearray(step["a"].encode())
        x = buf if step["carrier"] == "bytearray" else memoryview(buf)
        first = sess.guarded(sess.call, step, typelib.unmarshal, T, x)
        if not first.ok:
            return first
        # the fault: the buffer is overwritten with the next message between the return and the first read
        if isinstance(x, memoryview):
            x.release()
        buf[:] = step["b"].encode()
        sess.faults["mutate_input"] += 1
        sess.fault_fired_before = True
        return sess.guarded(list, first.value)


    def comparable(self, sess, i, step):
        for k in ("x", "v"):
            if k in step and hist.env_relative_value(step[k]):
                return False
        if "from" in step:
            return False
        return True

    def check(self, sess, i, step, out):
        sid = step.get("id", i)
        if step["op"] == "s_iter_late":
            import typelib

            # the reference: the same message alone, read at once
            ref = sess.guarded(lambda: list(typelib.unmarshal(sess.T(step), step["a"].encode())))
            if ref.ok != out.ok or (ref.ok and model.canon(ref.value) != model.canon(out.value)):
                sess.violation("input-read-after-return", i, {"t": step["t"]["src"], "message": step["a"], "buffer_reused_for": step["b"], "got": repr(out)[:120],
                                                              "alone": repr(ref)[:120]}, sig="iterator-reads-the-callers-buffer-late")
            return
        # (d) input unchanged by the step: rebuild the input fresh and compare
        for k in ("x", "v"):
            if k in step and sid in sess.inputs:
                try:
                    fresh = model.canon(sess.V(step[k]))
                    now = model.canon(sess.inputs[sid])
                except Exception:
                    break
                if _consumable(step[k]):
                    break
                if fresh != now:
                    sess.violation("input-mutated", i, {"field": k, "before": _short(fresh), "after": _short(now)})
                break
        # (c) aliasing between results / inputs of different steps
        if out.ok:
            own_in = model.containers_in(sess.inputs.get(sid)) if sid in sess.inputs else {}
            res_c = model.containers_in(out.value)
            for cid, c in res_c.items():
                if cid in own_in:
                    continue  # pass-through of the step's own input
                prev = sess.seen_containers.get(cid)
                if prev is not None and prev[0] != sid and prev[1] is c:
                    sess.violation("result-aliased", i, {"with_step": prev[0], "kind": type(c).__name__})
                    break
            for cid, c in res_c.items():
                sess.seen_containers.setdefault(cid, (sid, c))
            for cid, c in own_in.items():
                sess.seen_containers.setdefault(cid, (sid, c))
            sess.keepalive.append(out.value)
        if sid in sess.inputs:
            sess.keepalive.append(sess.inputs[sid])
        # (a) equals its cold execution under the same environment
        cstep = step
        if step["op"] == "retry_repaired":
            first, _ = sess.retry
            if first.ok:
                return
            # the reference: the repaired input alone, in a pristine process
            cstep = {"op": "unmarshal", "t": step["t"], "mod": step["mod"], "x": step["x"], "id": step.get("id", i)}
        if "from" in step:
            src = sess.results.get(step["from"])
            if not isinstance(src, (bytes, bytearray)):
                return
            cstep = {k: v for k, v in step.items() if k != "from"}
            cstep["x"] = {"$b": bytes(src).hex()}
        if step["op"] == "roundtrip" and step.get("mid"):
            cstep = {k: v for k, v in step.items() if k != "mid"}
        cold = sess.cold_exec(cstep)
        if "error" in cold:
            raise RuntimeError(f"harness: cold execution failed: {cold['error']}")
        mine = out.canon()
        if cold.get("trepr") != sess.trepr(cstep):
            # Python itself evaluated the annotation to another object here than in a
            # cold process (typing's _tp_cache aliases equal arguments): not comparable
            sess.probes["typing_cache_aliased_annotation"] += 1
            return
        if mine != cold["canon"]:
            sess.probes["cold_mismatch"] += 1
            sess.violation("cold-mismatch", i, {"here": _short(mine), "cold": _short(cold["canon"]), "op": step["op"]})
            confirmed = False
            if isinstance(cstep.get("t"), dict):
                for cand in _reorderings(sess.history, i, cstep["t"]):
                    alt = sess.cold_exec(dict(cstep, t=cand))
                    sess.probes["alias_hypotheses_tested"] += 1
                    if alt.get("canon") == mine:
                        confirmed = True
                        break
                    if step["op"] == "roundtrip" and step.get("mid"):
                        # the caches were cleared between the two halves: the marshal half may have followed the
                        # earlier order and the unmarshal half (built afresh) the step's own, or the other way round
                        for hyp in (dict(step, t_marshal=cand), dict(step, t=cand, t_marshal=cstep["t"])):  # (with the clears in between)
                            alt = sess.cold_exec(hyp)
                            sess.probes["alias_hypotheses_tested"] += 1
                            if alt.get("canon") == mine:
                                confirmed = True
                                break
                        if confirmed:
                            break
            sess.violations[-1]["detail"]["alias_confirmed"] = confirmed

    # ------------------------------------------------------------------ classification
    def classify(self, history, v):
        return classify_history(history, v)


def _consumable(v) -> bool:
    return isinstance(v, dict) and any(t in v for t in ("$gen", "$iter"))


def _short(c, n=300):
    s = core.jdump(c)
    return s if len(s) <= n else s[:n] + "..."


def _union_sets(t):
    out = []
    if not isinstance(t, dict):
        return out
    for n in model.twalk(t):
        if n["k"] == "union":
            out.append((frozenset(core.jdump(a) for a in n["a"]), tuple(core.jdump(a) for a in n["a"])))
    return out


def _alias_steps(steps, i):
    """Earlier non-fault steps whose type spells a union of step i in another order."""
    mine = _union_sets(steps[i].get("t"))
    out = []
    for e in steps[:i]:
        if e["op"] in hist.seams_fault_ops():
            continue
        hit = False
        for fs, order in _union_sets(e.get("t")):
            for fs2, order2 in mine:
                if fs == fs2 and order != order2:
                    hit = True
        if hit:
            out.append(e)
    return out


def _nkey(t) -> str:
    """Key of a type AST up to what typing's equality ignores: member order of unions and of
    Literal values, and the spelling of a union."""
    if not isinstance(t, dict):
        return core.jdump(t)
    k = t.get("k")
    if k == "union":
        return "U(" + ",".join(sorted(_nkey(a) for a in t["a"])) + ")"
    if k == "lit":
        return "L(" + ",".join(sorted(type(v).__name__ + ":" + repr(v) for v in t["v"])) + ")"
    a = t.get("a")
    if isinstance(a, dict):
        inner = _nkey(a)
    elif isinstance(a, list):
        inner = ",".join(_nkey(x) for x in a)
    else:
        inner = ""
    rest = {kk: vv for kk, vv in t.items() if kk not in ("a", "sp")}
    return core.jdump(rest) + "<" + inner + ">"


def _reorderings(history, i, t, cap=24):
    """Type ASTs equal to ``t`` except that union nodes take a member order in which the same
    member set was spelled earlier in the run (in an earlier step or in a declaration of the
    world).  The alias hypothesis says: the process behaved as a cold process would for one of
    these."""
    seen: dict = {}
    lseen: dict = {}

    def note(ty):
        if isinstance(ty, dict):
            for n in model.twalk(ty):
                if n["k"] == "union":
                    fs = frozenset(_nkey(a) for a in n["a"])
                    seen.setdefault(fs, [])
                    order = [_nkey(a) for a in n["a"]]
                    if order not in [o for o, _ in seen[fs]]:
                        seen[fs].append((order, n["a"]))
                elif n["k"] == "lit":
                    lseen.setdefault(_nkey(n), [])
                    if n["v"] not in lseen[_nkey(n)]:
                        lseen[_nkey(n)].append(n["v"])

    for m in (history.get("world") or {}).get("modules", ()):
        for d in m["decls"]:
            note(d.get("t"))
            for f in d.get("fields", ()):
                note(f.get("t"))
    for e in history["steps"][:i]:
        note(e.get("t"))
    note(t)
    out = []
    base = core.jdump(t)

    def rec(node):
        """All variants of a node (list), own spelling first."""
        if not isinstance(node, dict):
            return [node]
        a = node.get("a")
        if isinstance(a, dict):
            kids = [dict(node, a=x) for x in rec(a)]
        elif isinstance(a, list):
            combos = [[]]
            for child in a:
                vs = rec(child)
                combos = [c + [x] for c in combos for x in vs][:cap]
            kids = [dict(node, a=c) for c in combos]
        elif node.get("k") == "lit":
            kids = [node] + [dict(node, v=v) for v in lseen.get(_nkey(node), ()) if v != node["v"]]
        else:
            kids = [node]
        if node.get("k") != "union":
            return kids[:cap]
        res = []
        for kvar in kids:
            res.append(kvar)
            fs = frozenset(_nkey(x) for x in node["a"])
            by_key = {_nkey(orig): new for orig, new in zip(node["a"], kvar["a"])}
            for order, _members in seen.get(fs, ()):
                re_a = [by_key[k] for k in order if k in by_key]
                if len(re_a) == len(kvar["a"]) and [_nkey(x) for x in re_a] != [_nkey(x) for x in kvar["a"]]:
                    alt = dict(kvar, a=re_a)
                    if alt.get("sp") == "optional" and not (len(re_a) == 2 and re_a[1].get("k") == "none"):
                        alt["sp"] = "typing"
                    res.append(alt)
        return res[:cap]

    for cand in rec(t):
        if core.jdump(cand) != base:
            out.append(cand)
    return out[:cap]


def _same_set_steps(steps, i):
    """Earlier non-fault steps whose type contains a union with the member set of a union of
    step i (any order)."""
    mine = {fs for fs, _ in _union_sets(steps[i].get("t"))}
    out = []
    for e in steps[:i]:
        if e["op"] in ("clear", "clear_typing"):
            out.append(e)  # cache clears decide which spelling is built first afterwards
            continue
        if e["op"] in hist.seams_fault_ops():
            continue
        if any(fs in mine for fs, _ in _union_sets(e.get("t"))):
            out.append(e)
    return out


def classify_history(history, v) -> str:
    """Named, narrow predicates over the (minimised) failing history."""
    steps = history["steps"]
    i = v["step"]
    oracle = v["oracle"]
    if i < 0 or i >= len(steps):
        return f"unclassified:{oracle}"
    s = steps[i]
    earlier = steps[:i]
    faults = [e["op"] for e in earlier if e["op"] in hist.seams_fault_ops()]
    if oracle == "cold-mismatch":
        # union member-order alias: same member set seen earlier in another order, and
        # the in-process causality experiment (C12.finish) confirmed it
        if v.get("detail", {}).get("alias_confirmed"):
            return "union-order-alias"
        if any(e["op"] == "mutate_result" for e in earlier):
            return "after-result-mutation"
        if any(e["op"] == "mutate_input" for e in earlier):
            return "after-input-mutation"
        if not faults:
            return "history-only:" + s["op"]
        return "after-faults:" + "+".join(sorted(set(faults)))
    if oracle == "result-aliased":
        return "result-aliased:" + s["op"]
    if oracle == "input-mutated":
        return "input-mutated:" + s["op"]
    return f"unclassified:{oracle}"


PROP = C12()
