"""C11 - aliases, NewTypes, qualifiers and string references are transparent."""

from __future__ import annotations

import copy
import typing

from .. import core, gen, hist, model
from ..session import Outcome
from . import PropBase, steps_with_ids

FAULTS = ("other_module_first", "stack", "clear", "clear_typing", "order", "exhaust_scan")
WRAPPERS = ("newtype", "alias", "salias", "xalias", "final", "classvar", "sref", "fref")
POSITIONS = ("root", "list", "dict", "tuple", "union", "field")


def build_chain(rng, base_t, mod, counter, decls, position, xdecls=None):
    """Wrap ``base_t`` in a chain of 1-3 wrappers.  Declarations needed by the chain are
    appended to ``decls`` (of module ``mod``).  Returns (wrapped type AST, chain)."""
    n = rng.randint(1, 3)
    cur = base_t
    chain = []
    for i in range(n):
        last = i == n - 1
        options = ["newtype", "alias", "salias"]
        if last:
            # qualifiers and references are use-site wrappers: outermost only
            options += ["sref", "fref"]
            if xdecls is not None and position != "field":
                options += ["xalias"]  # a value alias declared in *another* module (the relay, which binds no other name)
            if position in ("root", "field"):
                options += ["final"]
            if position == "root":
                options += ["classvar"]
        w = rng.choice(options)
        if w == "newtype":
            if cur["k"] in ("union", "lit", "none", "final", "classvar", "sref", "fref", "bool") or (cur["k"] == "ref" and _is_alias_decl(cur, decls)):
                w = "alias"  # NewType needs a subclassable class-like base
        if w == "newtype":
            counter[0] += 1
            name = f"VwN{counter[0]}"
            decls.append({"d": "newtype", "n": name, "t": cur})
            cur = {"k": "ref", "m": mod, "n": name}
        elif w == "alias":
            counter[0] += 1
            name = f"VwL{counter[0]}"
            decls.append({"d": "alias", "n": name, "t": cur, "stmt": rng.random() < 0.3})
            cur = {"k": "ref", "m": mod, "n": name}
        elif w == "salias":
            counter[0] += 1
            name = f"VwS{counter[0]}"
            decls.append({"d": "alias", "n": name, "t": cur, "string": True})
            cur = {"k": "ref", "m": mod, "n": name}
        elif w == "xalias":
            counter[0] += 1
            name = f"VwX{counter[0]}"
            xdecls.append({"d": "alias", "n": name, "t": cur})
            cur = {"k": "ref", "m": "vwr", "n": name}
        elif w == "final":
            cur = {"k": "final", "a": cur}
        elif w == "classvar":
            cur = {"k": "classvar", "a": cur}
        elif w == "sref":
            cur = {"k": "sref", "of": cur, "s": None}
        elif w == "fref":
            cur = {"k": "fref", "of": cur, "s": None, "m": None}
        chain.append(w)
    if position == "root" and chain and chain[-1] in ("classvar", "final") and rng.random() < 0.4:
        # the qualifier reaches the library as text: a string reference to it, or a string-valued alias of it
        if rng.random() < 0.5:
            cur = {"k": "sref", "of": cur, "s": None}
            chain.append("sref")
        else:
            counter[0] += 1
            name = f"VwS{counter[0]}"
            decls.append({"d": "alias", "n": name, "t": cur, "string": True})
            cur = {"k": "ref", "m": mod, "n": name}
            chain.append("salias")
    return cur, chain


def _is_alias_decl(t, decls):
    return any(d["n"] == t["n"] and d["d"] == "alias" for d in decls)


def resolve_refs(t, issuing_mod, home_mod):
    """Fill in the text of string references: bare inside the defining module, module-qualified
    from another one."""
    t = copy.deepcopy(t)
    for n in model.twalk(t):
        if n["k"] in ("sref", "fref") and n.get("s") is None:
            inner = n.pop("of")
            src = model.tsrc(inner, home_mod)
            if issuing_mod != home_mod:
                if inner["k"] == "ref" and inner["m"] == home_mod:
                    src = f"{home_mod}.{inner['n']}"
                else:
                    src = model.tsrc(inner, issuing_mod)
            n["s"] = src
            if n["k"] == "fref":
                n["m"] = home_mod if (inner["k"] == "ref" and inner["m"] == home_mod and issuing_mod == home_mod) else issuing_mod
                if issuing_mod != home_mod and inner["k"] == "ref" and inner["m"] == home_mod:
                    n["s"] = inner["n"]
                    n["m"] = home_mod
    return t


def at_position(pos, x):
    if pos == "root":
        return x
    if pos == "list":
        return {"k": "list", "a": x}
    if pos == "dict":
        return {"k": "dict", "a": [{"k": "str"}, x]}
    if pos == "tuple":
        return {"k": "tuple", "a": [x, {"k": "int"}]}
    if pos == "union":
        return {"k": "union", "sp": "typing", "a": [x, {"k": "none"}]}
    raise ValueError(pos)


def value_at(pos, v):
    if pos in ("root", "union"):
        return v
    if pos == "list":
        return {"$list": [v]}
    if pos == "dict":
        return {"$dict": [["k", v]]}
    if pos == "tuple":
        return {"$tuple": [v, 7]}
    raise ValueError(pos)


def wire_at(pos, w):
    if pos in ("root", "union"):
        return w
    if pos == "list":
        return {"$list": [w]}
    if pos == "dict":
        return {"$dict": [["k", w]]}
    if pos == "tuple":
        return {"$list": [w, 7]}
    raise ValueError(pos)


class C11(PropBase):
    ID = "C11"
    QUICK_RUNS = 2500
    THOROUGH_RUNS = 80000
    QUICK_BUDGET_S = 60
    THOROUGH_BUDGET_S = 720
    FAULT_KINDS = FAULTS
    RULE = (
        "A case is one comparison of the routine for W(T) with the routine for T on one input (a clean wire form, a valid value, or "
        "junk), for T from U, W a chain of 1-3 wrappers over {NewType, value alias, string-valued alias, Final, ClassVar, string "
        "reference, ForwardRef(module=)} at root / list / dict value / tuple member / union member / class field, in the direction "
        "unmarshal, marshal or codec, issued from a seeded module and stack depth; plus bare-name references to a class name that "
        "exists in two modules, which must denote the issuing module's class. Non-trivial: the other module resolved the same bare name "
        "earlier in the run, the call came from a nested depth or another module than the first use, or a fault fired before; "
        "distinct = distinct (operation digest, pre-state signature) pairs."
        " Under the swept exhaustion fault the wrapped form is first used from every stack depth at which the call cannot complete. Bare names include one that is also a builtin's (Warning), bound to different classes in the two modules."
    )
    ASSUMPTIONS = ["string references are written the way Python resolves annotations: bare inside the defining module, qualified from another"]

    def gen(self, seed, tier):
        rng = core.rng_for(seed, "gen")
        cfg = gen.Cfg.for_tier(tier, wrappers=False)
        sw = hist.swarm(rng, FAULTS)
        world, view = gen.gen_world(rng, cfg, nmods=2)
        lk = view.lookup()
        mods = [m["name"] for m in world["modules"]]
        # a class with the same bare name in both modules (different fields)
        world["modules"][0]["decls"].append({"d": "dataclass", "n": "VwSame", "fields": [{"n": "a", "t": {"k": "int"}}], "flags": {}})
        world["modules"][1]["decls"].append({"d": "dataclass", "n": "VwSame", "fields": [{"n": "a", "t": {"k": "str"}}, {"n": "b", "t": {"k": "int"}, "default": 0}], "flags": {}})
        # ... and one whose name is also a builtin's: the caller's module binding shadows it, as in Python
        world["modules"][0]["decls"].append({"d": "dataclass", "n": "Warning", "fields": [{"n": "a", "t": {"k": "int"}}], "flags": {}})
        world["modules"][1]["decls"].append({"d": "dataclass", "n": "Warning", "fields": [{"n": "a", "t": {"k": "str"}}, {"n": "b", "t": {"k": "int"}, "default": 0}], "flags": {}})
        # ... and one named like a global of the library's own modules (the TypeVar T of its api modules)
        world["modules"][0]["decls"].append({"d": "dataclass", "n": "T", "fields": [{"n": "a", "t": {"k": "int"}}], "flags": {}})
        world["modules"][1]["decls"].append({"d": "dataclass", "n": "T", "fields": [{"n": "a", "t": {"k": "str"}}, {"n": "b", "t": {"k": "int"}, "default": 0}], "flags": {}})
        # a class the second module merely imports: a ForwardRef naming the importing module is as good as one naming the defining module
        world["modules"][0]["decls"].append({"d": "dataclass", "n": "VwOnly0", "fields": [{"n": "a", "t": {"k": "int"}}], "flags": {}})
        world["modules"][1]["decls"].append({"d": "raw", "n": "VwOnly0", "src": f"from {mods[0]} import VwOnly0\n"})
        # one name that is bytes-like in one module (carried verbatim by the top-level decode) and a class in the other
        world["modules"][0]["decls"].append({"d": "raw", "n": "VwBlob", "src": "VwBlob = typing.NewType('VwBlob', bytes)\n"})
        world["modules"][1]["decls"].append({"d": "dataclass", "n": "VwBlob", "fields": [{"n": "a", "t": {"k": "str"}}], "flags": {}})
        # module-level variables whose value is itself a reference (text, or an implicit alias with text inside)
        world["modules"][0]["decls"].append({"d": "raw", "n": "VwItemRef", "src": "VwItemRef = 'VwSame'\nVwItems = list['VwSame']\nVwMaybeItem = typing.Optional['VwSame']\n"})
        # a recursive class kept on a namespace class, its cycle closed through a NewType / an alias of it
        world["modules"][0]["decls"].append({"d": "raw", "n": "VwTreeNS", "src": (
            "class VwTreeNS:\n    @dataclasses.dataclass\n    class VwNode:\n        v: int\n"
            "        kids: 'list[VwNodeId]' = dataclasses.field(default_factory=list)\n        nxt: 'VwNodeAl | None' = None\n"
            "VwNodeId = typing.NewType('VwNodeId', VwTreeNS.VwNode)\nVwNodeAl = typing.TypeAliasType('VwNodeAl', VwNodeId)\n")})
        # a class whose name was bound to another class later in the module: its qualified name leads elsewhere
        world["modules"][0]["decls"].append({"d": "raw", "n": "VwMoneyOld", "src": (
            "@dataclasses.dataclass\nclass VwMoney:\n    amount: int\nVwMoneyOld = VwMoney\n"
            "@dataclasses.dataclass\nclass VwMoney:\n    amount: float\n    currency: str = 'EUR'\n")})
        # a class kept on a namespace class (its qualified name has two parts below the module)
        world["modules"][0]["decls"].append({"d": "raw", "n": "VwCanvas", "src": "class VwCanvas:\n    @dataclasses.dataclass\n    class VwPoint:\n        a: int\n        b: int = 0\n"})
        # the second module knows the first under a name that is also a loaded top-level module's
        # (`from pkg import types`): a qualified reference written there means what the module means by it
        world["modules"][1]["decls"].append({"d": "raw", "n": "types", "src": f"import {mods[0]} as types\n"})
        world["modules"][1]["decls"].append({"d": "raw", "n": "VwShadowAlias", "src": "VwShadowAlias = typing.TypeAliasType('VwShadowAlias', 'types.VwSame')\n"})
        world["modules"][1]["decls"].append({"d": "raw", "n": "VwShadowInit", "src": (
            "class VwShadowInit:\n    def __init__(self, k: 'types.VwSame', z: int = 0):\n        self.k = k\n        self.z = z\n"
            "    def __eq__(self, o):\n        return type(o) is type(self) and (o.k, o.z) == (self.k, self.z)\n    __hash__ = None\n")})
        world["modules"][0]["decls"].append({"d": "raw", "n": "VwPlainInit", "src": (
            "class VwPlainInit:\n    def __init__(self, k: VwSame, z: int = 0):\n        self.k = k\n        self.z = z\n"
            "    def __eq__(self, o):\n        return type(o) is type(self) and (o.k, o.z) == (self.k, self.z)\n    __hash__ = None\n")})
        # a base class whose annotations are text (postponed evaluation) in a module of its own, subclassed in the second
        # module, which binds the annotation's name to another type: inherited members mean what the base's module means
        world["modules"].append({"name": "vwf", "future": True, "decls": [
            {"d": "raw", "n": "VwAmount", "src": "VwAmount = typing.NewType('VwAmount', decimal.Decimal)\n"},
            {"d": "raw", "n": "VwPriced", "src": "@dataclasses.dataclass\nclass VwPriced:\n    amount: VwAmount\n    history: list[VwAmount] = dataclasses.field(default_factory=list)\n"
                                                  "    by_day: dict[str, VwAmount | None] = dataclasses.field(default_factory=dict)\n"}]})
        world["modules"].append({"name": "vwg", "future": False, "decls": [
            {"d": "raw", "n": "VwAmount", "src": "VwAmount = typing.NewType('VwAmount', int)\n"},
            {"d": "raw", "n": "VwInvoice", "src": "import vwf\n@dataclasses.dataclass\nclass VwInvoice(vwf.VwPriced):\n    number: str = ''\n"}]})
        # a relay module that binds none of the names: references issued "through" it must still be
        # resolved against the module further up the stack that does
        world["modules"].append({"name": "vwr", "future": False, "decls": []})
        env = self.base_env(rng, fault_free=True)
        # a class created inside a function and bound to a module attribute afterwards: its qualified
        # name ('_vw_make_VwLoc.<locals>.VwLoc') does not lead back to it, only the object does
        loc = {"d": "dataclass", "n": "VwLoc", "fields": [{"n": "a", "t": {"k": "int"}}, {"n": "b", "t": {"k": "str"}, "default": ""}], "flags": {}, "local": True}
        world["modules"][0]["decls"].append(loc)
        lk[(mods[0], "VwLoc")] = {"m": mods[0], "n": "VwLoc", "decl": loc, "cat": "dataclass", "hashable": False, "rec": False, "key_ok": False}
        counter = [0]
        cases = []
        for _ in range(rng.randint(1, 4)):
            base = gen.root_types(view, rng, cfg, 1)[0]
            if rng.random() < 0.25:
                base = {"k": "ref", "m": mods[0], "n": "VwLoc"}
            elif rng.random() < 0.08:
                base = {"k": "bytes"}  # carried verbatim by codecs - through every wrapper, too
            if base["k"] == "none":
                base = {"k": "int"}
            home = rng.choice(mods) if not any(n["k"] == "ref" for n in model.twalk(base)) else _home_of(base, mods)
            pos = rng.choice(POSITIONS)
            rebound = rng.random() < 0.2
            if rebound:
                base, home, pos = {"k": "raw", "src": "VwMoneyOld"}, mods[0], "field"
            home_decls = next(m for m in world["modules"] if m["name"] == home)["decls"]
            wrapped, chain = build_chain(rng, base, home, counter, home_decls, pos, xdecls=world["modules"][-1]["decls"])
            if rebound:
                pairs = [({"$obj": f"{mods[0]}.VwMoneyOld", "f": {"amount": a_}}, {"$dict": [["amount", str(a_)]]}) for a_ in (10, 12)]
            else:
                pairs = [gen.gen_pair(rng, base, lk, cfg) for _ in range(2)]
            case = {"base": base, "wrapped": wrapped, "chain": chain, "pos": pos, "home": home, "pairs": pairs}
            if pos == "field":
                counter[0] += 1
                hb, hw = f"VwHB{counter[0]}", f"VwHW{counter[0]}"
                fb = {"n": "f", "t": base}
                fw = {"n": "f", "t": wrapped}
                # in half of the holders the bare type is met first (field e), so the wrapped field is a
                # *revisit* of a type the graph already knows
                lead = [{"n": "e", "t": copy.deepcopy(base)}] if rng.random() < 0.5 or rebound else []
                home_decls.append({"d": "dataclass", "n": hb, "fields": lead + [fb, {"n": "z", "t": {"k": "int"}, "default": 0}], "flags": {}})
                home_decls.append({"d": "dataclass", "n": hw, "fields": copy.deepcopy(lead) + [fw, {"n": "z", "t": {"k": "int"}, "default": 0}], "flags": {}, "resolve_refs_in": home})
                case["holders"] = [hb, hw]
                case["lead"] = bool(lead)
            cases.append(case)
        # (two member orders of one member set in one process is the union-order alias that C08/C12 record)
        gen.one_order_per_member_set(world, [c["base"] for c in cases] + [c["wrapped"] for c in cases])
        # string references inside declarations are written from the defining module
        for m in world["modules"]:
            for d in m["decls"]:
                if "t" in d and isinstance(d["t"], dict):
                    d["t"] = resolve_refs(d["t"], m["name"], m["name"])
                for f in d.get("fields", ()):
                    f["t"] = resolve_refs(f["t"], m["name"], m["name"])
        steps = []
        n = rng.randint(1, 12 if tier == "quick" else 30)
        while len(steps) < n:
            r = rng.random()
            if steps and "clear" in sw and r < 0.08:
                steps.append({"op": "clear", "group": rng.choice(["all", "refs", "routines", "graph", "predicates"])})
                continue
            if steps and "clear_typing" in sw and r < 0.12:
                steps.append({"op": "clear_typing"})
                continue
            if r < 0.3:
                # bare reference to the twice-defined name
                mod = rng.choice(mods)
                x = {"$dict": [["a", 5]]} if rng.random() < 0.7 else {"$dict": [["a", "q"], ["b", 2]]}
                step = {"op": "bare", "name": rng.choice(["VwSame", "VwSame", "Warning", "T"]), "mod": mod, "x": x, "dir": rng.choice(["unmarshal", "unmarshal", "build", "graph"])}
                if rng.random() < 0.12:
                    # the top-level decode, given the name: whether the payload is carried verbatim is the issuing module's answer
                    step.update(name="VwBlob", dir="decode", x={"$b": (b'"abc"' if mod == mods[0] else b'{"a": "q"}').hex()})
                    steps.append(step)
                    continue
                if "stack" in sw and rng.random() < 0.4:
                    step["depth"] = rng.randint(1, 40)
                if rng.random() < 0.4:
                    step["via"] = "vwr"
                    step["via_depth"] = rng.randint(0, 5)
                if len(mods) > 1 and rng.random() < 0.35:
                    # the *other* module's class of that name, named explicitly (qualified string or
                    # ForwardRef(module=)) from a module that binds the same short name to its own class
                    step["target"] = rng.choice([m for m in mods if m != mod])
                    step["spelling"] = rng.choice(["qualified", "fref"])
                    step.pop("via", None)
                if rng.random() < 0.15:
                    # the nested class, by qualified string or ForwardRef(module=), from either module
                    step.update(name="VwCanvas.VwPoint", target=mods[0], spelling=rng.choice(["qualified", "fref"]), x={"$dict": [["a", 5]]})
                    step.pop("via", None)
                if rng.random() < 0.25:
                    step["shadowed"] = True  # issued by a function whose locals bind the same names to something else
                    step.pop("via", None)
                    step.pop("depth", None)
                steps.append(step)
                continue
            if r < 0.38:
                # the qualified reference whose head is the module's own name for the other module
                pos = rng.choice(["root", "list", "dict", "tuple", "union"])
                direction = rng.choice(["unmarshal", "unmarshal", "marshal", "codec"])
                via_init = rng.random() < 0.35
                if via_init:
                    tb, tw = {"k": "ref", "m": mods[0], "n": "VwPlainInit"}, {"k": "ref", "m": mods[1], "n": "VwShadowInit"}
                    xw = {"$dict": [["k", {"$dict": [["a", "5"]]}], ["z", 1]]}
                    step = {"op": "transparent", "pos": "root", "dir": "unmarshal", "mod": mods[1], "x": xw, "chain": ["shadowed-module-name-in-signature"],
                            "t_base": tb, "t_wrapped": tw, "cmp": "kz"}
                elif rng.random() < 0.2:
                    same = {"k": "ref", "m": mods[0], "n": "VwSame"}
                    which = rng.choice(["ItemRef", "Items", "MaybeItem"])
                    inner_b = {"ItemRef": same, "Items": {"k": "list", "a": same}, "MaybeItem": {"k": "union", "sp": "optional", "a": [same, {"k": "none"}]}}[which]
                    pos2 = rng.choice(["root", "root", "dict", "list"])
                    tb = at_position(pos2, inner_b)
                    tw = at_position(pos2, {"k": "fref", "s": "Vw" + which, "m": mods[0]})
                    one = {"$dict": [["a", "5"]]}
                    x = wire_at(pos2, {"$list": [one]} if which == "Items" else one)
                    step = {"op": "transparent", "pos": pos2, "dir": rng.choice(["unmarshal", "unmarshal", "codec"]) if False else "unmarshal", "mod": rng.choice(mods), "x": x,
                            "chain": ["fref-to-a-variable-holding-a-reference"], "t_base": tb, "t_wrapped": tw}
                elif rng.random() < 0.25:
                    tb = at_position(pos, {"k": "raw", "src": "vwf.VwPriced"})
                    tw = at_position(pos, {"k": "raw", "src": "VwInvoice"})
                    x = wire_at(pos, {"$dict": [["amount", "12.50"], ["history", {"$list": ["1.25", 2]}], ["by_day", {"$dict": [["mon", "0.75"], ["tue", None]]}], ["number", "A-1"]]})
                    step = {"op": "transparent", "pos": pos, "dir": "unmarshal", "mod": "vwg", "x": x, "chain": ["inherited-text-annotations"], "t_base": tb, "t_wrapped": tw,
                            "cmp": "priced"}
                elif rng.random() < 0.3:
                    tb = at_position(pos, {"k": "raw", "src": f"{mods[0]}.VwTreeNS.VwNode"})
                    tw = at_position(pos, {"k": "raw", "src": f"{mods[0]}." + rng.choice(["VwNodeId", "VwNodeAl"])})
                    node = {"$dict": [["v", "1"], ["kids", {"$list": [{"$dict": [["v", 2], ["nxt", {"$dict": [["v", "3"]]}]]}]}]]}
                    x = wire_at(pos, node)
                    step = {"op": "transparent", "pos": pos, "dir": "unmarshal", "mod": rng.choice(mods), "x": x, "chain": ["wrapper-of-nested-recursive-class"], "t_base": tb, "t_wrapped": tw}
                elif rng.random() < 0.4:
                    tb = at_position(pos, {"k": "ref", "m": mods[0], "n": "VwOnly0"})
                    tw = at_position(pos, {"k": "fref", "s": "VwOnly0", "m": mods[1]})
                    x = wire_at(pos, {"$dict": [["a", "5"]]}) if direction == "unmarshal" else value_at(pos, {"$obj": f"{mods[0]}.VwOnly0", "f": {"a": 5}})
                    step = {"op": "transparent", "pos": pos, "dir": direction, "mod": rng.choice(mods), "x": x, "chain": ["fref-to-importing-module"], "t_base": tb, "t_wrapped": tw}
                else:
                    tb = at_position(pos, {"k": "ref", "m": mods[0], "n": "VwSame"})
                    tw = at_position(pos, {"k": "raw", "src": "VwShadowAlias"})
                    if direction == "unmarshal":
                        x = wire_at(pos, {"$dict": [["a", rng.choice([5, "5"])]]})
                    else:
                        x = value_at(pos, {"$obj": f"{mods[0]}.VwSame", "f": {"a": 5}})
                    step = {"op": "transparent", "pos": pos, "dir": direction, "mod": mods[1], "x": x, "chain": ["shadowed-module-name"], "t_base": tb, "t_wrapped": tw}
                steps.append(step)
                continue
            c = rng.choice(cases)
            issuing = c["home"] if rng.random() < 0.6 else rng.choice(mods)
            v, w = rng.choice(c["pairs"])
            src = rng.random()
            direction = rng.choice(["unmarshal", "unmarshal", "marshal", "codec"])
            if direction == "unmarshal":
                if src < 0.5:
                    x = copy.deepcopy(w)
                elif src < 0.7:
                    txt = hist.json_text(w)
                    x = hist.carry(txt, rng.choice(["str", "bytes"])) if txt else copy.deepcopy(w)
                elif src < 0.8:
                    x = copy.deepcopy(v)
                else:
                    x = hist.junk(rng)
                    if isinstance(x, dict) and ("$gen" in x or "$iter" in x):
                        x = None
            else:
                x = copy.deepcopy(v)
            step = {"op": "transparent", "pos": c["pos"], "dir": direction, "mod": issuing, "x": x, "chain": c["chain"]}
            if c["pos"] == "field":
                hb, hw = c["holders"]
                step["t_base"] = {"k": "ref", "m": c["home"], "n": hb}
                step["t_wrapped"] = {"k": "ref", "m": c["home"], "n": hw}
                if direction == "unmarshal":
                    step["x"] = {"$dict": ([["e", copy.deepcopy(step["x"])]] if c.get("lead") else []) + [["f", step["x"]], ["z", 1]]}
                else:
                    le = {"e": copy.deepcopy(v)} if c.get("lead") else {}
                    step["x_base"] = {"$obj": f"{c['home']}.{hb}", "f": dict(copy.deepcopy(le), f=copy.deepcopy(v), z=1)}
                    step["x"] = {"$obj": f"{c['home']}.{hw}", "f": dict(copy.deepcopy(le), f=copy.deepcopy(v), z=1)}
            else:
                step["t_base"] = at_position(c["pos"], c["base"])
                step["t_wrapped"] = resolve_refs(at_position(c["pos"], c["wrapped"]), issuing, c["home"])
                if direction == "unmarshal":
                    step["x"] = wire_at(c["pos"], step["x"]) if src < 0.8 else step["x"]
                else:
                    step["x"] = value_at(c["pos"], step["x"])
            if "stack" in sw and rng.random() < 0.3:
                step["depth"] = rng.randint(1, 40)
            if "order" in sw and rng.random() < 0.5:
                step["wrapped_first"] = True
            if "exhaust_scan" in sw and rng.random() < 0.3:
                # the wrapped form is first used from stack depths at which the call cannot complete:
                # every attempt dies of RecursionError a little further in, until one fits.  What the
                # aborted attempts leave behind must not make the wrapper any less transparent.
                step["scan"] = True
            steps.append(step)
        return {"prop": self.ID, "seed": seed, "tier": tier, "world": world, "env": env, "steps": steps_with_ids(steps), "meta": {"swarm": sw}}

    def comparable(self, sess, i, step):
        return False

    def pre_run(self, sess):
        sess.bare_first = {}

    # ------------------------------------------------------------------ execution
    def exec_op(self, sess, i, step):
        import typelib
        from typelib import graph

        op = step["op"]
        if op == "bare":
            name = step["name"]
            first = sess.bare_first.setdefault(name, step["mod"])
            if first != step["mod"]:
                sess.faults["other_module_first"] += 1
                sess.fault_fired_before = True
            def issue(fn, *args):
                if step.get("shadowed"):
                    return sess.guarded(sess.world.modules[step["mod"]]._vw_call_shadowed, fn, args, {})
                if step.get("via"):
                    relay = sess.world.modules[step["via"]]._vw_call
                    return sess.guarded(sess.call, step, relay, fn, args, {}, int(step.get("via_depth", 0)))
                return sess.guarded(sess.call, step, fn, *args)

            if step.get("target"):
                name = f"{step['target']}.{name}" if step["spelling"] == "qualified" else typing.ForwardRef(name, module=step["target"])
            if step["dir"] == "decode":
                out = issue(typelib.decode, name, sess.V(step["x"]))
            elif step["dir"] == "unmarshal":
                out = issue(typelib.unmarshal, name, sess.V(step["x"]))
            elif step["dir"] == "build":
                out = issue(typelib.marshaller, name)
                if out.ok:
                    out = Outcome(True, out.value.t)
            else:
                out = issue(graph.static_order, name)
                if out.ok:
                    out = Outcome(True, out.value[-1].type if out.value else None)
            sess._c11 = None
            return out
        if op != "transparent":
            return None
        mod = step["mod"]
        Tb = sess.world.realize(step["t_base"], mod)
        Tw = sess.world.realize(step["t_wrapped"], mod)
        xb = step.get("x_base", step["x"])
        d = step["dir"]

        def run(T, xv):
            x = sess.V(xv)
            if d == "unmarshal":
                return sess.guarded(sess.call, step, typelib.unmarshal, T, x)
            if d == "marshal":
                return sess.guarded(sess.call, step, typelib.marshal, x, t=T)

            # every library call is issued directly by the world module's trampoline: a harness
            # closure on the stack would be taken for the caller of a string reference
            c = sess.guarded(sess.call, step, typelib.codec, T)
            if not c.ok:
                return c
            e = sess.guarded(sess.call, step, c.value.encode, x)
            if not e.ok:
                return e
            return sess.guarded(sess.call, step, c.value.decode, e.value)

        if step.get("scan"):
            # (the trampoline issues the library call itself: a harness frame in between would be
            # taken for the module a string reference is resolved against)
            if d == "unmarshal":
                sess.scan_exhaust(step, typelib.unmarshal, Tw, sess.V(step["x"]))
            elif d == "marshal":
                sess.scan_exhaust(step, typelib.marshal, sess.V(step["x"]), t=Tw)
            else:
                sess.scan_exhaust(step, typelib.codec, Tw)
        if step.get("wrapped_first"):
            ow = run(Tw, step["x"])
            ob = run(Tb, xb)
        else:
            ob = run(Tb, xb)
            ow = run(Tw, step["x"])
        sess._c11 = (ob, ow)
        return ow

    def nontrivial(self, sess, i, step, out, hit_delta):
        if step["op"] == "bare":
            return sess.bare_first.get(step["name"]) != step["mod"] or bool(step.get("depth"))
        if step["op"] == "transparent":
            return sess.fault_fired_before or bool(step.get("depth")) or hit_delta > 0
        return False

    def check(self, sess, i, step, out):
        if step["op"] == "bare":
            want = sess.world.obj(step.get("target") or step["mod"], step["name"])
            if step["dir"] == "decode":
                import typelib

                ref = sess.guarded(sess.call, step, typelib.decode, want, sess.V(step["x"]))
                if ref.ok != out.ok or (ref.ok and not model.same(ref.value, out.value)):
                    sess.violation("bare-reference-resolved-elsewhere", i, {"name": step["name"], "issued_from": step["mod"], "dir": "decode", "by_name": repr(out)[:120],
                                                                           "by_object": repr(ref)[:120]}, sig="bare-reference:decode")
                return
            other = [m for m in sess.world.modules if m != step["mod"]]
            first_other = sess.bare_first.get(step["name"]) != step["mod"]
            got_cls = None
            if out.ok:
                got_cls = type(out.value) if step["dir"] == "unmarshal" else out.value
            elif step["dir"] == "unmarshal":
                # the input may simply not fit this module's class: judge by what a qualified reference gives
                import typelib

                ref = sess.guarded(sess.call, step, typelib.unmarshal, want, sess.V(step["x"]))  # noqa
                if not ref.ok:
                    return
            if got_cls is not want:
                sess.violation("bare-reference-resolved-elsewhere", i, {"name": step["name"], "issued_from": step["mod"], "dir": step["dir"],
                                                                       "got": repr(got_cls)[:80] if out.ok else repr(out)[:120]},
                               sig="bare-reference:" + ("other-module-asked-first" if first_other else "first-use"))
            return
        if step["op"] != "transparent":
            return
        ob, ow = sess._c11
        same = (ob.ok == ow.ok) and (not ob.ok or _same_modulo_holder(ob.value, ow.value, step))
        if not same:
            sess.violation("wrapper-not-transparent", i, {"chain": step["chain"], "pos": step["pos"], "dir": step["dir"], "t_base": model.tsrc(step["t_base"], step["mod"]),
                                                          "t_wrapped": model.tsrc(step["t_wrapped"], step["mod"]), "base": repr(ob)[:160], "wrapped": repr(ow)[:160]},
                           sig=_sig(step, ob, ow))


def _sig(step, ob, ow) -> str:
    chain, pos = step["chain"], step["pos"]
    kind = "raise-vs-ok" if ob.ok != ow.ok else "value"
    if chain[-1] == "sref" and pos not in ("root", "field") and ob.ok and not ow.ok:
        # a reference written inside a subscripted generic that is passed directly (list['X'])
        return "nested-reference-in-generic-not-resolved"
    return f"not-transparent:{'+'.join(chain)}:{pos}:{step['dir']}:{kind}"


def _same_modulo_holder(a, b, step) -> bool:
    if step.get("cmp") == "priced":
        def fields(o):
            for _ in range(3):  # the holder at the step's position: list / dict value / tuple member
                if isinstance(o, (list, tuple)) and o:
                    o = o[0]
                elif isinstance(o, dict) and "k" in o:
                    o = o["k"]
            return [getattr(o, n, "<missing>") for n in ("amount", "history", "by_day")]
        return model.same(fields(a), fields(b))
    if step.get("cmp") == "kz":
        try:
            return model.same(a.k, b.k) and a.z == b.z
        except AttributeError:
            return False
    if step["pos"] == "field" and step["dir"] in ("unmarshal", "codec"):
        # two holder classes: compare their fields
        try:
            return model.same(a.f, b.f) and a.z == b.z and model.same(getattr(a, "e", None), getattr(b, "e", None))
        except AttributeError:
            return False
    return model.same(a, b)


def _home_of(t, mods):
    """Module in which every reference of t is defined, else the first one."""
    ms = {n["m"] for n in model.twalk(t) if n["k"] == "ref"}
    if len(ms) == 1:
        return next(iter(ms))
    return sorted(ms)[-1] if ms else mods[0]


PROP = C11()
