"""C16 - TypeContext against a write-once reference model."""

from __future__ import annotations

import typing

from .. import core, hist
from ..session import Outcome
from . import PropBase, steps_with_ids

# closed key family: base types x wrappers -------------------------------------------------
BASES = {
    "int": {"expr": "int", "qual": "int", "module": "builtins"},
    "b0": {"expr": "vw0.VwB0", "qual": "VwB0", "module": "vw0"},
    "b1": {"expr": "vw0.VwB1", "qual": "VwB1", "module": "vw0"},
    "o0": {"expr": "vw1.VwB0", "qual": "VwB0", "module": "vw1"},
    "in": {"expr": "vw0.VwOuter.VwInner", "qual": "VwOuter.VwInner", "module": "vw0"},
}
WRAPS = ("self", "newtype", "alias", "salias", "final", "fref", "nn", "classvar", "alias_nt", "final_nt", "classvar_nn")

_SUF = {"int": "I", "b0": "B0", "b1": "B1", "o0": "O0", "in": "IN"}


def _world():
    m0 = []
    m0.append({"d": "raw", "n": "VwB0", "src": "@dataclasses.dataclass\nclass VwB0:\n    a: int = 0\n"})
    m0.append({"d": "raw", "n": "VwB1", "src": "class VwB1(enum.Enum):\n    M0 = 1\n"})
    m0.append({"d": "raw", "n": "VwOuter", "src": "class VwOuter:\n    @dataclasses.dataclass\n    class VwInner:\n        a: int = 0\n"})
    m1 = [{"d": "raw", "n": "VwB0", "src": "@dataclasses.dataclass\nclass VwB0:\n    b: str = ''\n"},
          # the first module's classes under other names, and the module itself under an alias
          {"d": "raw", "n": "VwRenB1", "src": "from vw0 import VwB1 as VwRenB1, VwOuter as VwRenOuter\nimport vw0 as vwzero\n"}]
    for b, info in BASES.items():
        mod = info["module"] if info["module"].startswith("vw") else "vw0"
        tgt = m1 if mod == "vw1" else m0
        s = _SUF[b]
        local = info["expr"].split(".", 1)[1] if info["expr"].startswith(mod + ".") else info["expr"]
        tgt.append({"d": "raw", "n": f"VwN{s}", "src": f"VwN{s} = typing.NewType('VwN{s}', {local})\n"})
        tgt.append({"d": "raw", "n": f"VwNN{s}", "src": f"VwNN{s} = typing.NewType('VwNN{s}', VwN{s})\n"})
        tgt.append({"d": "raw", "n": f"VwA{s}", "src": f"VwA{s} = typing.TypeAliasType('VwA{s}', {local})\n"})
        tgt.append({"d": "raw", "n": f"VwS{s}", "src": f"VwS{s} = typing.TypeAliasType('VwS{s}', {local!r})\n"})
        # wrappers stacked on a NewType: an alias of it (Final / ClassVar of it are written inline)
        tgt.append({"d": "raw", "n": f"VwAN{s}", "src": f"VwAN{s} = typing.TypeAliasType('VwAN{s}', VwN{s})\n"})
    return {"modules": [{"name": "vw0", "future": False, "decls": m0}, {"name": "vw1", "future": False, "decls": m1}]}


def key_expr(base: str, w: str) -> str:
    info = BASES[base]
    mod = info["module"] if info["module"].startswith("vw") else "vw0"
    s = _SUF[base]
    if w == "self":
        return info["expr"]
    if w == "newtype":
        return f"{mod}.VwN{s}"
    if w == "nn":
        return f"{mod}.VwNN{s}"
    if w == "alias":
        return f"{mod}.VwA{s}"
    if w == "salias":
        return f"{mod}.VwS{s}"
    if w == "final":
        return f"typing.Final[{info['expr']}]"
    if w == "classvar":
        return f"typing.ClassVar[{info['expr']}]"
    if w == "alias_nt":
        return f"{mod}.VwAN{s}"
    if w == "final_nt":
        return f"typing.Final[{mod}.VwN{s}]"
    if w == "classvar_nn":
        return f"typing.ClassVar[{mod}.VwNN{s}]"
    if w == "fref":
        return f"typing.ForwardRef({info['qual']!r}, module={info['module']!r})"
    raise ValueError(w)


# reference model ------------------------------------------------------------------------------


def mkey(base: str, w: str):
    info = BASES[base]
    if w == "fref":
        return ("FR", info["qual"], info["module"])
    return (w, base)


def munwrap(k):
    if k[0] in ("newtype", "nn", "alias", "final", "classvar", "alias_nt", "final_nt", "classvar_nn"):
        return ("self", k[1])
    if k[0] == "salias":
        info = BASES[k[1]]
        mod = info["module"] if info["module"].startswith("vw") else "vw0"
        body = info["expr"].split(".", 1)[1] if info["expr"].startswith(mod + ".") else info["expr"]
        return ("FR", body, mod)
    return k


def mnaming(k):
    """The forward reference naming a key (only base types have one inside the family)."""
    if k[0] == "self":
        info = BASES[k[1]]
        # the library strips the module prefix from the qualified name; for a nested class
        # the first component of the qualified name is taken for the module (see DESIGN §7 #15)
        return ("FR", info["qual"], info["module"])
    return None


class Model:
    def __init__(self):
        self.store = {}

    def lookup(self, k):
        if k in self.store:
            return True, self.store[k]
        if k[0] == "FR":
            return False, None
        u = munwrap(k)
        if u in self.store:
            return True, self.store[u]
        r = mnaming(k)
        if r is not None and r in self.store:
            return True, self.store[r]
        return False, None


class C16(PropBase):
    ID = "C16"
    QUICK_RUNS = 6000
    THOROUGH_RUNS = 300000
    QUICK_BUDGET_S = 45
    THOROUGH_BUDGET_S = 420
    FAULT_KINDS = ("clear", "clear_typing", "fr_eval", "stack", "exhaust_scan")
    RULE = (
        "A case is one TypeContext operation (insert fresh key / [] / get with default / in for stored keys) of a seeded "
        "sequence over the closed key family (5 base types x {itself, NewType, NewType of NewType, value alias, string-valued "
        "alias, Final, ClassVar, ForwardRef}); it is non-trivial when at least one key was stored before it and it is a lookup "
        "through a wrapper/reference or follows a fired fault (predicate memos cleared, typing caches cleared, a ForwardRef "
        "evaluated); distinct = distinct (operation, sorted stored-key set) pairs. Each observation is compared with the "
        "write-once reference model, and with the same lookup in a context that holds the same entries and has never been read."
    )
    ASSUMPTIONS = ["internal memoisation of alias keys (keys(), len) is deliberately not observed",
                   "sequences are sampled (quick: length <= 12 biased to <= 6, thorough: <= 40), not enumerated"]

    def gen(self, seed: int, tier: str) -> dict:
        rng = core.rng_for(seed, "gen")
        sw = hist.swarm(rng, self.FAULT_KINDS)
        bases = rng.sample(sorted(BASES), 3)
        wraps = list(WRAPS)
        n = rng.randint(1, 6) if rng.random() < 0.6 else rng.randint(7, 12 if tier == "quick" else 40)
        nctx = 1 if rng.random() < 0.65 else 2
        stored = {c: [] for c in range(nctx)}
        steps = []
        tok = 0
        if rng.random() < 0.25:
            # motif: an alias found through its base (and possibly memoised), then inserted as a key of its own
            b, w = rng.choice(bases), rng.choice(["newtype", "alias", "salias", "final", "nn", "classvar"])
            via = rng.choice(["self", "self", "fref"])
            mod = rng.choice(["vw0", "vw1"])
            steps.append({"ctx": 0, "key": {"base": b, "w": via}, "mod": mod, "op": "ctx_set", "val": "tokA"})
            steps.append({"ctx": 0, "key": {"base": b, "w": w}, "mod": mod, "op": rng.choice(["ctx_getitem", "ctx_get"]), "default": "dfltM"})
            steps.append({"ctx": 0, "key": {"base": b, "w": w}, "mod": mod, "op": "ctx_set", "val": "tokB"})
            steps.append({"ctx": 0, "key": {"base": b, "w": w}, "mod": mod, "op": "ctx_in"})
            steps.append({"ctx": 0, "key": {"base": b, "w": w}, "mod": mod, "op": "ctx_getitem"})
            stored[0] += [{"base": b, "w": via}, {"base": b, "w": w}]
            tok = 2
            n += 5
        if not steps and rng.random() < 0.25:
            # motif: references to two classes of one name in different modules held by one context; each class
            # is found through the reference that names *it*
            bases = ["b0", "o0"] + [b for b in bases if b not in ("b0", "o0")][:1]
            first, second = rng.sample(["b0", "o0"], 2)
            mod = rng.choice(["vw0", "vw1"])
            steps.append({"ctx": 0, "key": {"base": first, "w": "fref"}, "mod": mod, "op": "ctx_set", "val": "tokF"})
            steps.append({"ctx": 0, "key": {"base": second, "w": "fref"}, "mod": mod, "op": "ctx_set", "val": "tokS"})
            for b in rng.sample([first, second, first, second], 3):
                steps.append({"ctx": 0, "key": {"base": b, "w": rng.choice(["self", "self", "newtype", "alias", "final"])}, "mod": mod,
                              "op": rng.choice(["ctx_getitem", "ctx_get"]), "default": "dfltR"})
            stored[0] += [{"base": first, "w": "fref"}, {"base": second, "w": "fref"}]
            tok = max(tok, 2)
            n += 5
        while len(steps) < n:
            c = rng.randrange(nctx)
            r = rng.random()
            if r > 0.97:
                steps.append({"op": "renamed_ref", "how": rng.choice(["renamed", "dotted", "outer"])})
                continue
            if sw and steps and r < 0.15:
                k = rng.choice([k for k in sw if k != "stack"] or ["clear"])
                if k == "clear":
                    steps.append({"op": "clear", "group": rng.choice(["predicates", "all", "refs"])})
                elif k == "clear_typing":
                    steps.append({"op": "clear_typing"})
                elif k == "fr_eval":
                    steps.append({"op": "fr_eval", "base": rng.choice(bases), "ctx": c, "stored": rng.random() < 0.7})
                continue
            key = {"base": rng.choice(bases), "w": rng.choice(wraps)}
            step = {"ctx": c, "key": key, "mod": rng.choice(["vw0", "vw1"])}
            if "stack" in sw and rng.random() < 0.2:
                step["depth"] = rng.randint(1, 30)
            kind = core.weighted(rng, [(4, "set"), (5, "getitem"), (3, "get"), (2, "in")])
            if key["w"] == "fref" and rng.random() < 0.5:
                step["same_obj"] = True  # look up with the very reference object an earlier fr_eval step evaluated in place, if any
            if kind == "set":
                if mkey(**key) in [mkey(**k) for k in stored[c]]:
                    continue  # write-once: fresh keys only
                tok += 1
                # mostly distinct tokens (every hit is attributable to one insert); sometimes a falsy
                # value or None - a context is a mapping, and those are values like any other
                step.update(op="ctx_set", val=f"tok{tok}" if rng.random() < 0.8 else rng.choice([None, 0, "", False, [], None]))
                stored[c].append(key)
            elif kind == "getitem":
                step.update(op="ctx_getitem")
            elif kind == "get":
                step.update(op="ctx_get", default=f"dflt{len(steps)}")
                if "exhaust_scan" in sw and rng.random() < 0.4:
                    step["scan"] = True
                    step.pop("depth", None)
            else:
                if not stored[c]:
                    continue
                step.update(op="ctx_in", key=rng.choice(stored[c]))
            steps.append(step)
        return {"prop": self.ID, "seed": seed, "tier": tier, "world": _world(), "env": self.base_env(rng, fault_free=True),
                "steps": steps_with_ids(steps), "meta": {"swarm": sw, "bases": bases}}

    # ------------------------------------------------------------------ execution
    def pre_run(self, sess):
        sess.ctxs = {}
        sess.models = {}
        sess.stored_objs = {}
        sess.store_log = {}
        sess.evaluated_refs = {}

    def _ctx(self, sess, c):
        from typelib import ctx

        if c not in sess.ctxs:
            sess.ctxs[c] = ctx.TypeContext()
            sess.models[c] = Model()
            sess.stored_objs[c] = {}
        return sess.ctxs[c], sess.models[c]

    def _key(self, sess, key, mod):
        # a fresh object every time: equal-but-distinct keys are the point
        return eval(key_expr(key["base"], key["w"]), sess.world.modules[mod].__dict__)

    def exec_op(self, sess, i, step):
        op = step["op"]
        if op == "renamed_ref":
            # a value stored only under a reference that spells the type differently from its own name (a renamed
            # import, the module under an alias, a nested class through a renamed outer class); once the reference
            # has been evaluated it names the type, and the type is found under it
            from typelib import ctx
            from typelib.py import refs

            m0 = sess.world.modules["vw0"]
            text, target = {"renamed": ("VwRenB1", m0.VwB1), "dotted": ("vwzero.VwB1", m0.VwB1), "outer": ("VwRenOuter.VwInner", m0.VwOuter.VwInner)}[step["how"]]
            c = ctx.TypeContext()
            ref = typing.ForwardRef(text, module="vw1")
            c[ref] = "tokR"
            refs.evaluate(ref)
            got = [sess.guarded(lambda: c[target]), sess.guarded(lambda: c.get(target, "dflt")), sess.guarded(lambda: ref in c)]
            sess.faults["fr_eval"] += 1
            return Outcome(True, [g.value if g.ok else ["exc", type(g.exc).__name__] for g in got])
        if op == "fr_eval":
            from typelib.py import refs

            c, m = self._ctx(sess, step["ctx"])
            mk = mkey(step["base"], "fref")
            obj = sess.stored_objs[step["ctx"]].get(mk) if step.get("stored") else None
            if obj is None:
                obj = self._key(sess, {"base": step["base"], "w": "fref"}, "vw0")
            out = sess.guarded(refs.evaluate, obj)
            if out.ok:
                sess.faults["fr_eval"] += 1
                sess.fault_fired_before = True
                sess.evaluated_refs[step["base"]] = obj
            return Outcome(True, "evaluated" if out.ok else "not-evaluable")
        if not op.startswith("ctx_"):
            return None
        c, m = self._ctx(sess, step["ctx"])
        kobj = self._key(sess, step["key"], step.get("mod", "vw0"))
        if step.get("same_obj") and op != "ctx_set" and step["key"]["w"] == "fref" and step["key"]["base"] in sess.evaluated_refs:
            kobj = sess.evaluated_refs[step["key"]["base"]]
            sess.probes["lookup_with_an_evaluated_reference_object"] += 1
        if op == "ctx_set":
            def do():
                c[kobj] = step["val"]
                return None
            out = sess.guarded(sess.call, step, do)
            m.store[mkey(**step["key"])] = step["val"]
            sess.stored_objs[step["ctx"]][mkey(**step["key"])] = kobj
            sess.store_log.setdefault(step["ctx"], []).append((kobj, step["val"]))
            return out
        # the same lookup in a context that holds the same entries and has never been read:
        # "a lookup never changes the result of any later lookup"
        from typelib import ctx as _ctx_mod

        fresh = _ctx_mod.TypeContext()
        for fk, fv in sess.store_log.get(step["ctx"], ()):
            fresh[fk] = fv
        if op == "ctx_getitem":
            sess._c16_fresh = sess.guarded(sess.call, step, lambda: fresh[kobj])
            return sess.guarded(sess.call, step, lambda: c[kobj])
        if op == "ctx_get":
            sess._c16_fresh = sess.guarded(sess.call, step, lambda: fresh.get(kobj, step["default"]))
            sess._c16_low = None
            if step.get("scan"):
                # the lookup is first attempted (in a context of its own with the same entries) from every stack
                # depth at which it cannot complete: an attempt either dies of RecursionError or answers as at any depth
                low = _ctx_mod.TypeContext()
                for fk, fv in sess.store_log.get(step["ctx"], ()):
                    low[fk] = fv
                r = sess.scan_exhaust({"mod": step.get("mod", "vw0")}, low.get, kobj, step["default"])
                sess._c16_low = r[1] if r and r[0] else None
            return sess.guarded(sess.call, step, lambda: c.get(kobj, step["default"]))
        if op == "ctx_in":
            sess._c16_fresh = sess.guarded(sess.call, step, lambda: kobj in fresh)
            return sess.guarded(sess.call, step, lambda: kobj in c)
        return None

    def nontrivial(self, sess, i, step, out, hit_delta):
        if not step["op"].startswith("ctx_") or step["op"] == "ctx_set":
            return False
        m = sess.models.get(step["ctx"])
        if not m or not m.store:
            return False
        return step["key"]["w"] != "self" or sess.fault_fired_before

    def check(self, sess, i, step, out):
        op = step["op"]
        if op == "renamed_ref":
            if out.value != ["tokR", "tokR", True]:
                sess.violation("model-mismatch", i, {"how": step["how"], "got": repr(out.value)[:160], "model": "['tokR', 'tokR', True]"}, sig=f"renamed-reference:{step['how']}")
            return
        if not op.startswith("ctx_"):
            return
        low = getattr(sess, "_c16_low", None)
        if op == "ctx_get" and low is not None and low.ok and out.ok and low.value != out.value:
            sess.violation("model-mismatch", i, {"key": step["key"], "with_next_to_no_stack_left": repr(low.value)[:80], "at_normal_depth": repr(out.value)[:80]},
                           sig="get-answer-depends-on-stack-depth")
        m = sess.models[step["ctx"]]
        k = mkey(**step["key"])
        stored = sorted(map(str, m.store))
        if op in ("ctx_getitem", "ctx_get", "ctx_in") and m.store:
            sess.nontrivial.add(core.digest(core.jdump([op, step["key"], stored])))
        if op == "ctx_set":
            if not out.ok:
                sess.violation("insert-raised", i, {"exc": type(out.exc).__name__, "key": step["key"]}, sig=f"insert-raised:{step['key']['w']}")
            return
        fr = sess._c16_fresh
        if (fr.ok, fr.value if fr.ok else type(fr.exc).__name__) != (out.ok, out.value if out.ok else type(out.exc).__name__):
            sess.violation("lookup-changed-by-earlier-lookups", i, {"key": step["key"], "op": op, "here": repr(out)[:120], "never_read_context": repr(fr)[:120], "stored": stored},
                           sig=_sig("history", step, m))
            return
        found, val = m.lookup(k)
        # ambiguous reading of the statement ("a forward reference naming it"): a value stored
        # under the reference naming the *unwrapped* form may or may not be found; both pass
        if not found and k[0] != "FR":
            alt = mnaming(munwrap(k))
            if alt is not None and alt in m.store:
                aval = m.store[alt]
                if op == "ctx_getitem" and (out.ok and out.value == aval or (not out.ok and isinstance(out.exc, KeyError))):
                    return
                if op == "ctx_get" and out.ok and out.value in (aval, step["default"]):
                    return
        if op == "ctx_getitem":
            if found:
                if not out.ok or out.value != val:
                    sess.violation("lookup-mismatch", i, {"key": step["key"], "expected": val, "got": repr(out), "stored": stored},
                                   sig=_sig("miss" if not out.ok else "wrong", step, m))
            else:
                if out.ok:
                    sess.violation("lookup-mismatch", i, {"key": step["key"], "expected": "KeyError", "got": repr(out.value), "stored": stored},
                                   sig=_sig("phantom", step, m))
                elif not isinstance(out.exc, KeyError):
                    sess.violation("lookup-mismatch", i, {"key": step["key"], "expected": "KeyError", "got": type(out.exc).__name__, "stored": stored},
                                   sig=_sig("exc:" + type(out.exc).__name__, step, m))
        elif op == "ctx_get":
            want = val if found else step["default"]
            if not out.ok or out.value != want:
                sess.violation("get-mismatch", i, {"key": step["key"], "expected": want, "got": repr(out), "stored": stored},
                               sig=_sig("get", step, m))
        elif op == "ctx_in":
            if not out.ok or out.value is not True:
                sess.violation("stored-key-not-found", i, {"key": step["key"], "got": repr(out), "stored": stored}, sig=_sig("in", step, m))


def _sig(kind, step, m):
    via = "direct"
    k = mkey(**step["key"])
    if k not in m.store:
        u = munwrap(k)
        via = "unwrap" if u in m.store else ("naming-ref" if mnaming(k) in m.store else "absent")
    return f"{kind}:{step['key']['w']}:{step['key']['base']}:{via}"


PROP = C16()
