"""C06 - marshalled output is plain JSON-compatible data, freshly built."""

from __future__ import annotations

import copy
import json

from .. import core, gen, hist, model
from ..session import Outcome
from . import PropBase, steps_with_ids

FAULTS = ("mutate_result", "clear", "shrink", "twin", "clear_typing", "stack", "exhaust_scan")
PLAIN = (type(None), bool, int, float, str)


def subclassify(rng, t, v, lk):
    """Replace parts of a valid value AST by subclass instances where the type permits."""
    k = t["k"]
    if k in ("final", "classvar"):
        return subclassify(rng, t["a"], v, lk)
    if rng.random() < 0.5:
        return v
    if k == "int" and isinstance(v, int) and not isinstance(v, bool):
        return {"$intsub": v}
    if k == "str" and isinstance(v, str):
        return {"$strsub": v}
    if k == "float" and isinstance(v, dict) and "$f" in v:
        return {"$floatsub": v["$f"]}
    if k == "dt" and isinstance(v, dict) and "$dt" in v and v["$dt"][0] > 1 and v["$dt"][0] < 9999:
        return {"$pend": ["dt", v]}
    if k == "date" and isinstance(v, dict) and "$d" in v:
        return {"$pend": ["date", v]}
    if k == "time" and isinstance(v, dict) and "$t" in v:
        return {"$pend": ["time", v]}
    if k == "td" and isinstance(v, dict) and "$td" in v and abs(v["$td"][0]) < 10**6:
        return {"$pend": ["td", v]}
    if k in ("dict", "Mapping", "MutableMapping") and isinstance(v, dict) and "$dict" in v:
        # keys may be instances of a subclass of the key type too (a tagged str): what is written is a plain str
        sub_keys = t["a"][0]["k"] == "str" and rng.random() < 0.6
        tag = rng.choice(["$odict", "$dict"])
        return {tag: [[{"$strsub": kk} if (sub_keys and isinstance(kk, str)) else kk, subclassify(rng, t["a"][1], vv, lk)] for kk, vv in v["$dict"]]}
    if k in ("Sequence", "Collection", "Iterable", "MutableSequence") and isinstance(v, dict) and "$list" in v:
        if k in ("Collection", "Iterable", "Sequence"):
            return {"$deque": [subclassify(rng, t["a"], e, lk) for e in v["$list"]]}
    if k in ("list", "deque", "tuplevar") and isinstance(v, dict):
        for tag in ("$list", "$deque", "$tuple"):
            if tag in v:
                return {tag: [subclassify(rng, t["a"], e, lk) for e in v[tag]]}
    if k == "tuple" and isinstance(v, dict) and "$tuple" in v:
        return {"$tuple": [subclassify(rng, a, e, lk) for a, e in zip(t["a"], v["$tuple"])]}
    if k == "ref":
        it = lk.get((t["m"], t["n"]))
        if it and it["decl"]["d"] in ("newtype", "alias"):
            return subclassify(rng, it["decl"]["t"], v, lk)
        if it and isinstance(v, dict) and "f" in v:
            ft = {f["n"]: f["t"] for f in it["decl"].get("fields", ())}
            out = dict(v)
            out["f"] = {n: subclassify(rng, ft[n], fv, lk) if n in ft else fv for n, fv in v["f"].items()}
            return out
    return v


class C06(PropBase):
    ID = "C06"
    NEEDS_COLD = True
    REPLICAS = 2
    QUICK_RUNS = 2500
    THOROUGH_RUNS = 80000
    QUICK_BUDGET_S = 60
    THOROUGH_BUDGET_S = 720
    FAULT_KINDS = FAULTS
    RULE = (
        "A case is one marshal(v, t=T) of a seeded history (T fully annotated, no bytes-like members; v valid, including subclass "
        "instances: int/str/float subclasses, pendulum temporals, OrderedDict, deque; and non-members of Literal types). It is "
        "checked for: only None/bool/int/float/str/list/dict (exact classes, primitive keys), acceptance by json.dumps, equality "
        "of a second call, no mutable container shared with v or with any earlier output of the run, v unchanged. Non-trivial: "
        "the same (T, v) was marshalled earlier in the run and its result was deep-mutated since, or a fault fired before, or a "
        "memo written earlier was read; distinct = distinct (operation digest, pre-state signature) pairs."
        ' Mappings with composite keys (tuple/frozenset key types) may be refused; what is emitted for them is held to the same rule.'
        ' Under the swept exhaustion fault the same object is first offered from every stack depth at which the conversion cannot complete.'
    )
    ASSUMPTIONS = ["Any / unparameterised containers are outside the statement (their contents are passed through by contract)"]

    def gen(self, seed, tier):
        rng = core.rng_for(seed, "gen")
        cfg = gen.Cfg.for_tier(tier)
        sw = hist.swarm(rng, FAULTS)
        world, view = gen.gen_world(rng, cfg)
        world["modules"][0]["decls"].append({"d": "raw", "n": "VwPlainE", "src": (
            "class VwPlainE(enum.Enum):\n    ONE = 1\n    A = 'a'\n    YES = True\n    TEXT1 = '1'\n    ZERO = 0\n    EMPTY = ''\n    NOTHING = None\n")})
        lk = view.lookup()
        mods = [m["name"] for m in world["modules"]]
        env = self.base_env(rng, fault_free=not sw)
        pool = []
        for t in gen.root_types(view, rng, cfg, rng.randint(1, 4)):
            vals = []
            for _ in range(rng.randint(1, 2)):
                v = gen.gen_value(rng, t, lk, cfg)
                if rng.random() < 0.5:
                    v = subclassify(rng, t, v, lk)
                vals.append(v)
            if "twin" in sw:
                # values equal to a pooled one but written differently (Decimal exponent, equal instant at
                # another offset, 0.0 / -0.0): "the same on every call" must not mean "the same as for an
                # equal value seen earlier"
                vals += [tw for tw in (hist.value_twin(rng, x, numeric=False) for x in list(vals)) if tw is not None]
            pool.append((t, vals))
        if rng.random() < 0.15:
            # temporals carrying a rule-based zone (zoneinfo): their offset depends on a date - for a bare
            # time there is none - so nothing that is written for them may depend on *today*
            zn = rng.choice(["Europe/Berlin", "America/New_York", "Australia/Lord_Howe", "Pacific/Chatham"])
            tv = {"$t": [rng.randint(0, 23), rng.randint(0, 59), rng.randint(0, 59), rng.choice([0, 250000]), zn]}
            tt = {"k": "time"}
            shape = rng.choice(["root", "list", "dict"])
            if shape == "list":
                tt, tv = {"k": "list", "a": tt}, {"$list": [tv]}
            elif shape == "dict":
                tt, tv = {"k": "dict", "a": [{"k": "str"}, tt]}, {"$dict": [["opens", tv]]}
            pool.append((tt, [tv]))
            pool.append(pool[-1])
        # (the cold comparison below would otherwise re-find the union-order alias that C08/C12 record)
        gen.one_order_per_member_set(world, [t for t, _ in pool])
        steps = []
        n = rng.randint(1, 14 if tier == "quick" else 40)
        fk = [k for k in sw if k in ("clear", "shrink", "clear_typing")]
        while len(steps) < n:
            r = rng.random()
            if fk and steps and r < 0.15:
                steps.append(hist.fault_step(rng, rng.choice(fk), steps))
                continue
            if r < 0.03:
                # a member of a plain Enum (no mix-in: it does not equal its value) whose value is a declared member:
                # not a member, so it is refused
                lit = gen.gen_literal(rng)
                by_value = {("int", 1): "ONE", ("str", "a"): "A", ("bool", True): "YES", ("str", "1"): "TEXT1", ("int", 0): "ZERO", ("str", ""): "EMPTY",
                            ("NoneType", None): "NOTHING"}
                names = [by_value[(type(m).__name__, m)] for m in lit["v"] if (type(m).__name__, m) in by_value]
                if names:
                    steps.append({"op": "marshal", "t": lit, "v": {"$enum": [f"{mods[0]}.VwPlainE", rng.choice(names)]}, "mod": rng.choice(mods), "nonmember": True})
                    continue
            if 0.08 <= r < 0.12:
                # a mapping whose keys are composite (they marshal into lists, which key nothing): refusing it is an
                # answer, output with keys that are not primitives is not
                kt, kv = rng.choice([({"k": "tuple", "a": [{"k": "int"}, {"k": "int"}]}, {"$tuple": [0, 1]}), ({"k": "tuplevar", "a": {"k": "str"}}, {"$tuple": ["a", "b"]}),
                                     ({"k": "frozenset", "a": {"k": "int"}}, {"$frozenset": [3]})])
                t = {"k": rng.choice(["dict", "Mapping"]), "a": [kt, {"k": "str"}]}
                if t["k"] == "Mapping":
                    t["sp"] = "typing"
                v = {"$dict": [[kv, "x"]]}
                if rng.random() < 0.4:
                    t, v = {"k": "list", "a": t}, {"$list": [v]}
                steps.append({"op": "marshal", "t": t, "v": v, "mod": rng.choice(mods), "may_refuse": True})
                continue
            if r < 0.08:
                lit = gen.gen_literal(rng)
                bad = rng.choice([9, "zz", {"$f": "2.5"}, None, True, "1", 1, 0, "", False,
                                  {"$list": [1]}, {"$dict": [["a", 1]]}, {"$ba": "61"}, {"$set": [1]}, {"$list": []}])  # unhashable ones too
                bv = float(bad["$f"]) if isinstance(bad, dict) and "$f" in bad else (object() if isinstance(bad, dict) else bad)
                member = any(bv == m for m in lit["v"])
                steps.append({"op": "marshal", "t": lit, "v": bad, "mod": rng.choice(mods), "nonmember": not member})
                continue
            t, vals = rng.choice(pool)
            if "twin" in sw and rng.random() < 0.3:
                tw = hist.order_preserving_twins(rng, t)
                if tw:
                    t = rng.choice(tw)
            v = rng.choice(vals)
            step = {"op": "marshal", "t": t, "v": copy.deepcopy(v), "mod": rng.choice(mods)}
            if t["k"] == "ref" and lk[(t["m"], t["n"])]["decl"]["d"] == "typeddict" and isinstance(v, dict) and "$dict" in v and rng.random() < 0.4:
                # the TypedDict value is a defaultdict (a lookup of an absent key would insert it): a member the value
                # does not hold is not emitted, and the value is left as it was
                step["v"] = {"$ddict": copy.deepcopy(v["$dict"])}
            if "stack" in sw and rng.random() < 0.2:
                step["depth"] = rng.randint(1, 40)
            if "twin" in sw and rng.random() < 0.6:
                step["cold"] = True  # compared with the same call in a pristine process
            if "exhaust_scan" in sw and rng.random() < 0.25:
                # the same object is first offered from every stack depth at which the conversion
                # cannot complete (RecursionError one frame further in each time)
                step["scan"] = True
            steps.append(step)
            if "mutate_result" in sw and rng.random() < 0.5:
                # F3: mutate what the caller was given, then ask again
                steps.append({"op": "mutate_result", "ref": len(steps) - 1})
                steps.append(copy.deepcopy(step))
        return {"prop": self.ID, "seed": seed, "tier": tier, "world": world, "env": env, "steps": steps_with_ids(steps), "meta": {"swarm": sw}}

    def comparable(self, sess, i, step):
        return True  # what is written for a value never depends on clock, zone or hash seed

    def pre_run(self, sess):
        sess.out_containers = {}
        sess.keep = []
        sess.seen_ops = {}

    def nontrivial(self, sess, i, step, out, hit_delta):
        if step["op"] != "marshal":
            return False
        key = core.digest(core.jdump([step["t"], step["v"]]))
        again = key in sess.seen_ops
        sess.seen_ops[key] = True
        return again or sess.fault_fired_before or hit_delta > 0

    def check(self, sess, i, step, out):
        import typelib

        if step["op"] != "marshal":
            return
        sid = step.get("id", i)
        shape = _shape(step["t"])
        if step.get("nonmember"):
            if out.ok or not isinstance(out.exc, ValueError):
                sess.violation("literal-nonmember-emitted", i, {"t": model.tsrc(step["t"]), "v": repr(step["v"]), "got": repr(out)[:120]},
                               sig="literal-nonmember:" + ("emitted" if out.ok else type(out.exc).__name__))
            return
        if "lit" == step["t"]["k"]:
            return
        v = sess.inputs[sid]
        if not out.ok and step.get("may_refuse") and isinstance(out.exc, (TypeError, ValueError)):
            return
        if not out.ok:
            sess.violation("marshal-raised", i, {"t": model.tsrc(step["t"]), "exc": f"{type(out.exc).__name__}: {out.exc}"[:240]},
                           sig=f"raised:{type(out.exc).__name__}:{shape}")
            return
        res = out.value
        bad = _first_non_plain(res)
        if bad is not None:
            sess.violation("not-plain", i, {"t": model.tsrc(step["t"]), "where": bad[0], "class": bad[1]}, sig=f"not-plain:{bad[1]}:{shape}")
            return
        try:
            json.dumps(res)
        except (TypeError, ValueError) as e:
            sess.violation("json-rejects", i, {"t": model.tsrc(step["t"]), "exc": str(e)[:200]}, sig=f"json-rejects:{shape}")
            return
        # same on every call - including the first call of a process that has seen nothing else
        if step.get("cold") and not sess.is_cold:
            cold = sess.cold_exec({k: x for k, x in step.items() if k not in ("scan", "cold")})
            if "error" in cold:
                raise RuntimeError(f"harness: cold execution failed: {cold['error']}")
            sess.probes["compared_with_cold_process"] += 1
            if cold.get("trepr") == sess.trepr(step) and cold["canon"] != out.canon():
                sess.violation("differs-from-cold-process", i, {"t": model.tsrc(step["t"]), "here": _s(out.canon()), "cold": _s(cold["canon"])},
                               sig=f"differs-from-cold:{shape}")
                return
        again = sess.guarded(sess.call, step, typelib.marshal, v, t=sess.T(step))
        if not again.ok or model.canon(again.value) != model.canon(res):
            sess.violation("second-call-differs", i, {"t": model.tsrc(step["t"]), "first": _s(model.canon(res)), "second": repr(again)[:200]},
                           sig=f"second-call-differs:{shape}")
        # fresh containers: nothing shared with v, with the second result, or with an earlier output
        mine = model.containers_in(res)
        inp = model.containers_in(v)
        shared_in = [c for c in mine if c in inp]
        if shared_in:
            sess.violation("shares-input-container", i, {"t": model.tsrc(step["t"]), "kind": type(mine[shared_in[0]]).__name__},
                           sig=f"shares-input-container:{shape}")
        for cid, c in mine.items():
            prev = sess.out_containers.get(cid)
            if prev is not None and prev[1] is c and prev[0] != sid:
                sess.violation("shares-earlier-output", i, {"t": model.tsrc(step["t"]), "with_step": prev[0], "kind": type(c).__name__},
                               sig=f"shares-earlier-output:{shape}")
                break
        if again.ok:
            other = model.containers_in(again.value)
            if any(c in mine for c in other):
                sess.violation("shares-earlier-output", i, {"t": model.tsrc(step["t"]), "with": "second call"}, sig=f"shares-second-call:{shape}")
            for cid, c in other.items():
                sess.out_containers.setdefault(cid, (sid, c))
            sess.keep.append(again.value)
        for cid, c in mine.items():
            sess.out_containers.setdefault(cid, (sid, c))
        sess.keep.append(res)
        sess.keep.append(v)
        # input unchanged
        try:
            fresh = model.canon(sess.V(step["v"]))
        except Exception:
            return
        if model.canon(v) != fresh:
            sess.violation("input-modified", i, {"t": model.tsrc(step["t"])}, sig=f"input-modified:{shape}")


def _first_non_plain(x, path="$"):
    stack = [(x, path)]
    while stack:
        cur, p = stack.pop()
        t = type(cur)
        if t in PLAIN:
            continue
        if t is list:
            for i, e in enumerate(cur):
                stack.append((e, f"{p}[{i}]" if len(p) < 60 else p))
            continue
        if t is dict:
            for k, e in cur.items():
                if type(k) not in PLAIN:
                    return (p + ".<key>", model.qn(type(k)))
                stack.append((e, f"{p}.{k}"[:80]))
            continue
        return (p, model.qn(t))
    return None


def _shape(t) -> str:
    kinds = sorted({n["k"] for n in model.twalk(t)})
    return t["k"] + "[" + ",".join(k for k in kinds if k != t["k"])[:60] + "]"


def _s(x, n=240):
    s = core.jdump(x) if not isinstance(x, str) else x
    return s if len(s) <= n else s[:n] + "..."


PROP = C06()
