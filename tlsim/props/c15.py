"""C15 - every valid annotation yields working routines; construction is repeatable."""

from __future__ import annotations

import copy

from .. import core, gen, hist, model
from ..session import Outcome
from . import PropBase, steps_with_ids

FAULTS = ("clear", "clear_typing", "low_headroom_build", "exhaust_scan", "order", "reclimit", "twin", "warnings_as_errors")

UPLUS_SRC = '''
VwT = typing.TypeVar("VwT")
VwTB = typing.TypeVar("VwTB", bound=int)
VwTC = typing.TypeVar("VwTC", int, str)
import typing_extensions
VwTE = typing_extensions.TypeVar("VwTE")                    # the back-ported factory: a free TypeVar like VwT
VwTED = typing_extensions.TypeVar("VwTED", default=int)      # PEP 696 default
# an opaque callable with an explicit parameter list, reached through wrappers
VwTBC = typing.TypeVar("VwTBC", bound=typing.Callable[[int], str])
VwNC = typing.NewType("VwNC", typing.Callable[[int], str])
VwAC = typing.TypeAliasType("VwAC", typing.Callable[[int, str], None])

class VwG(typing.Generic[VwT]):
    x: VwT
    def __init__(self, x: VwT):
        self.x = x
    def __eq__(self, o):
        return type(o) is type(self) and o.x == self.x

@dataclasses.dataclass
class VwGD(typing.Generic[VwT]):
    x: VwT
    n: int = 0

class VwNoAnn:
    def __init__(self, a=1, b="x"):
        self.a = a
        self.b = b
    def __eq__(self, o):
        return type(o) is type(self) and (o.a, o.b) == (self.a, self.b)

class VwEmpty:
    pass

@dataclasses.dataclass
class VwTwoVar:
    a: tuple[int, ...]
    b: tuple[str, ...]
    c: tuple[int, ...] = ()

@dataclasses.dataclass
class VwScale:
    """a structured class that is also callable"""
    factor: int = 1
    def __call__(self, x):
        return x * self.factor

@dataclasses.dataclass
class VwTwoDepths:
    """one union of a user class, met at two depths of one graph (PEP 604 spelling)"""
    one: "VwScale | None" = None
    many: "list[VwScale | None]" = dataclasses.field(default_factory=list)

@dataclasses.dataclass
class VwTwoDepthsT:
    """the same, typing spelling"""
    one: "typing.Optional[VwScale]" = None
    many: "typing.List[typing.Optional[VwScale]]" = dataclasses.field(default_factory=list)

@dataclasses.dataclass
class VwReadings:
    """a union of stdlib types met as an anonymous argument first, as a field second (PEP 604 spelling)"""
    history: list[int | None] = dataclasses.field(default_factory=list)
    latest: int | None = None

@dataclasses.dataclass
class VwReadingsT:
    """the same, typing spelling"""
    history: typing.List[typing.Optional[float]] = dataclasses.field(default_factory=list)
    latest: typing.Optional[float] = None

@dataclasses.dataclass
class VwReadingsS:
    by_day: dict[str, str | bytes] = dataclasses.field(default_factory=dict)
    latest: str | bytes = ""
    history: tuple[str | bytes, ...] = ()

class VwErr(Exception):
    """no hints, and a constructor inherited from a C base that has no text signature"""

import types as _vw_types
class VwNS(_vw_types.SimpleNamespace):
    pass

def _vw_make_local():
    @dataclasses.dataclass
    class VwLocP:
        x: int = 0
    @dataclasses.dataclass
    class VwLocH:
        """classes created inside a function; the member class is met twice (container first)"""
        a: list[VwLocP] = dataclasses.field(default_factory=list)
        b: VwLocP = None
    return VwLocP, VwLocH
VwLocP, VwLocH = _vw_make_local()

@dataclasses.dataclass
class VwKids:
    """a recursive class whose back-edge is a subscripted generic that is also used as a root"""
    v: int = 0
    kids: "list[VwKids]" = dataclasses.field(default_factory=list)
    by_name: "dict[str, VwKids]" = dataclasses.field(default_factory=dict)

@dataclasses.dataclass
class VwHook:
    name: str = ""
    on_event: VwTBC = str
    also: VwAC = print
    registry: typing.ClassVar[typing.Callable[[int], str]] = str

@dataclasses.dataclass
class VwParent:
    name: str
    children: "list[VwChild]" = dataclasses.field(default_factory=list)

@dataclasses.dataclass
class VwChild:
    n: int
    parent: "VwParent" = None  # names, directly, a class that is still being built further up the same graph

@dataclasses.dataclass
class VwSelf:
    v: int
    left: "VwSelf" = None

@dataclasses.dataclass
class VwAnyFields:
    a: typing.Any
    b: object = None
    c: list = dataclasses.field(default_factory=list)
    d: typing.Callable[..., int] = len
    e: typing.List = dataclasses.field(default_factory=list)
'''

# (expression, pass-through at the root?, probe inputs)
RAW = [
    ("typing.Any", True), ("object", True), ("VwT", True), ("typing.Callable[..., int]", True), ("typing.Callable[[int], str]", True),
    ("typing.Callable", True), ("collections.abc.Callable[[int, str], None]", True),
    ("list", False), ("dict", False), ("tuple", False), ("set", False), ("frozenset", False), ("typing.List", False), ("typing.Dict", False),
    ("typing.Tuple", False), ("typing.Set", False), ("typing.Sequence", False), ("typing.Mapping", False),
    ("VwTB", False), ("VwTC", False), ("VwTE", True), ("list[VwTE]", False), ("dict[str, VwTE]", False), ("tuple[VwTE, ...]", False),
    ("typing.Optional[list[VwTE]]", False), ("VwTED", False), ("list[VwTED]", False), ("type[int]", False), ("typing.Type[str]", False), ("type", False),
    ("VwG[int]", False), ("VwG", False), ("VwGD[str]", False), ("VwGD", False), ("VwNoAnn", False), ("VwEmpty", False), ("VwTwoVar", False),
    ("tuple[list[vwx.VwXOwner], vwx.VwXOwner]", False), ("dict[str, tuple[vwx.VwXPayee, list[vwx.VwXPayee]]]", False),
    ("typing.Union[list[vwx.VwXPayee], vwx.VwXPayee]", False), ("tuple[vwx.VwXSelf, list[vwx.VwXSelf], vwx.VwXOwner]", False), ("vwx.VwXOwner", False),
    ("VwTBC", True), ("VwNC", True), ("VwAC", True), ("list[VwTBC]", False), ("typing.Optional[VwNC]", False), ("dict[str, VwAC]", False), ("VwHook", False),
    ("typing.ClassVar[typing.Callable[[int], str]]", True),
    ("VwLocH", False), ("list[VwLocH]", False), ("VwLocH", False), ("VwErr", False), ("list[VwErr]", False), ("VwNS", False), ("dict[str, VwNS]", False),
    ("VwKids", False), ("list[VwKids]", False), ("dict[str, VwKids]", False), ("VwKids", False), ("list[VwKids]", False),
    ("VwReadings", False), ("VwReadingsT", False), ("VwReadingsS", False), ("list[VwReadings]", False),
    ("VwTwoDepths", False), ("VwTwoDepthsT", False), ("list[VwScale | None]", False), ("dict[str, VwTwoDepthsT]", False),
    ("VwAnyFields", False), ("VwScale", False), ("list[VwScale]", False), ("VwParent", False), ("VwChild", False), ("VwSelf", False), ("list[VwParent]", False), ("dict[str, VwSelf]", False),
    ("list[typing.Any]", False), ("dict[str, typing.Any]", False), ("tuple[typing.Any, ...]", False), ("list[VwT]", False),
    ("typing.Optional[typing.Any]", False), ("dict[str, object]", False), ("tuple[int, typing.Any]", False), ("list[VwG[int]]", False),
    ("dict[str, typing.Callable[..., int]]", False), ("tuple[tuple[int, ...], tuple[str, ...], tuple[int, ...]]", False),
    ("typing.Union[int, typing.Any]", False), ("list[list]", False), ("dict[str, dict]", False), ("typing.Optional[VwTB]", False),
    ("set[VwTC]", False), ("typing.Final[typing.Any]", False), ("typing.ClassVar[list]", False), ("list[type[int]]", False),
]
PROBES = [None, 1, "a", "1", {"$f": "1.5"}, True, {"$list": [1, "a", None]}, {"$dict": [["a", 1]]}, {"$tuple": [1, 2]}, {"$list": []}, {"$dict": []},
          {"$dict": [["name", "p"], ["children", {"$list": [{"$dict": [["n", 1], ["parent", {"$dict": [["name", "q"], ["children", {"$list": []}]]}]]}]}]]},
          {"$dict": [["v", 1], ["left", {"$dict": [["v", 2], ["left", {"$dict": [["v", 3]]}]]}]]}, {"$dict": [["n", 1], ["parent", {"$dict": [["name", "q"]]}]]},
          {"$dict": [["v", "1"], ["kids", {"$list": [{"$dict": [["v", 2], ["by_name", {"$dict": [["n", {"$dict": [["v", "3"]]}]]}]]}]}]]},
          {"$list": [{"$dict": [["v", "1"], ["kids", {"$list": [{"$dict": [["v", 2]]}]}]]}]}, {"$dict": [["k", {"$dict": [["v", 1], ["kids", {"$list": [{"$dict": []}]}]]}]]},
          {"$dict": [["a", {"$list": [{"$dict": [["x", "1"]]}]}], ["b", {"$dict": [["x", "2"]]}]]},
          {"$dict": [["factor", "3"]]}, {"$dict": [["history", {"$list": [1, None, "2"]}], ["latest", "3"]]}, {"$dict": [["by_day", {"$dict": [["mo", "a"]]}], ["latest", "b"], ["history", {"$list": ["c"]}]]}, {"$dict": [["one", {"$dict": [["factor", 2]]}], ["many", {"$list": [{"$dict": [["factor", 3]]}, None]}]]}, {"$dict": [["x", 1], ["n", 2]]}, {"$dict": [["a", 5], ["b", "y"]]}, {"$list": [{"$list": [1]}]}, {"$b": "6162"}, {"$set": [1]}]


class C15(PropBase):
    ID = "C15"
    NEEDS_COLD = True
    TIMEOUT_IS_VERDICT = True
    QUICK_RUNS = 2500
    THOROUGH_RUNS = 80000
    QUICK_BUDGET_S = 60
    THOROUGH_BUDGET_S = 720
    FAULT_KINDS = FAULTS
    RULE = (
        "A case is one build (marshaller / unmarshaller / codec) or one probe call of a seeded history over annotations from U+ "
        "(Any, object, bare and unparameterised generics, free/bound/constrained TypeVars, Callable, type[X], user Generic classes "
        "parameterised and bare, classes without annotations, a class with several variadic tuples, containers of those, and U types of a "
        "generated world). Oracle: no build raises or hangs (RecursionError only under the low-headroom fault); Any/object/free TypeVar/"
        "Callable positions return their input unchanged; the outcome of every probe equals the outcome of the same probe earlier in "
        "the run (before a cache clear, a rebuild in another order, a failed low-headroom build). Non-trivial: the build or probe follows "
        "a fired fault, or repeats an earlier one; distinct = distinct (operation digest, pre-state signature) pairs."
        ' Under the swept exhaustion fault a build is first attempted from every stack depth at which it cannot complete and later probes of that annotation are compared with a cold process; a share of the runs has warnings configured as errors.'
        ' A share of the probes is first issued from every stack depth at which the call cannot complete (deferred positions are resolved by the first call) and then compared with a cold process.'
    )
    ASSUMPTIONS = ["the annotation grammar is sampled from a fixed pool of 50 U+ expressions plus generated U types, not enumerated to depth 2",
                   "what a non-pass-through U+ position converts to is not judged, only that construction works and is repeatable"]

    def gen(self, seed, tier):
        rng = core.rng_for(seed, "gen")
        cfg = gen.Cfg.for_tier(tier)
        sw = hist.swarm(rng, FAULTS)
        world, view = gen.gen_world(rng, cfg, nmods=1)
        world["modules"][0]["decls"].append({"d": "raw", "n": "VwT", "src": UPLUS_SRC})
        # wrappers declared in another module than the class they wrap
        world["modules"].append({"name": "vwx", "future": False, "decls": [{"d": "raw", "n": "VwXOwner", "src": (
            "VwXOwner = typing.NewType('VwXOwner', vw0.VwScale)\n"
            "VwXPayee = typing.TypeAliasType('VwXPayee', vw0.VwParent)\n"
            "VwXSelf = typing.NewType('VwXSelf', vw0.VwSelf)\n")}]})
        env = self.base_env(rng, fault_free=True)
        if "reclimit" in sw:
            env["reclimit"] = rng.choice([1000, 2000, 5000])
        if "warnings_as_errors" in sw:
            # ambient configuration: the process turns warnings into exceptions (python -W error, a
            # test runner's filterwarnings=error); a valid annotation must still build
            env["warnings"] = "error"
        types = []
        for _ in range(rng.randint(2, 6)):
            if rng.random() < 0.75:
                src, passthrough = rng.choice(RAW)
                types.append(({"k": "raw", "src": src}, passthrough))
            else:
                types.append((gen.root_types(view, rng, cfg, 1)[0], False))
        steps = []
        n = rng.randint(2, 14 if tier == "quick" else 36)
        fk = [k for k in sw if k in ("clear", "clear_typing")]
        while len(steps) < n:
            r = rng.random()
            if fk and steps and r < 0.15:
                steps.append(hist.fault_step(rng, rng.choice(fk), steps))
                continue
            if "clear_typing" in sw and "clear" in sw and r < 0.12:
                k = rng.randint(8, 30)
                burst = [rng.choice(RAW)[0] for _ in range(k)]
                order2 = list(range(k))
                rng.shuffle(order2)
                steps.append({"op": "respell", "srcs": burst, "order2": order2, "mod": "vw0"})
                continue
            t, passthrough = rng.choice(types)
            if r < 0.4:
                step = {"op": "build", "kind": rng.choice(["marshaller", "unmarshaller", "codec"]), "t": t, "mod": "vw0"}
                if "low_headroom_build" in sw and rng.random() < 0.25:
                    step["depth"] = rng.randint(880, 985)
                    step["low"] = True
                elif "exhaust_scan" in sw and rng.random() < 0.5:
                    # the build is first attempted from every stack depth at which it cannot
                    # complete (RecursionError one frame further in each time), then at normal depth
                    step["scan"] = True
                steps.append(step)
                if step.get("scan"):
                    steps.append({"op": "probe", "t": t, "x": copy.deepcopy(rng.choice(PROBES)), "dir": rng.choice(["unmarshal", "unmarshal", "marshal"]),
                                  "mod": "vw0", "pass": passthrough})
            else:
                x = copy.deepcopy(rng.choice(PROBES))
                steps.append({"op": "probe", "t": t, "x": x, "dir": rng.choice(["unmarshal", "unmarshal", "marshal"]), "mod": "vw0", "pass": passthrough})
                if "exhaust_scan" in sw and rng.random() < 0.3:
                    # the call itself (deferred positions are resolved by the first call that reaches them) is first issued
                    # from every stack depth at which it cannot complete
                    steps[-1]["scan"] = True
        return {"prop": self.ID, "seed": seed, "tier": tier, "world": world, "env": env, "steps": steps_with_ids(steps), "meta": {"swarm": sw}}

    def comparable(self, sess, i, step):
        return False

    def pre_run(self, sess):
        sess.probe_memo = {}
        sess.build_memo = {}
        sess.drop_refs_on_clear = True
        sess.scanned = set()
        if sess.env.get("warnings") == "error":
            sess.faults["warnings_as_errors"] += 1

    def pre_op(self, sess, i, step):
        import typelib

        if step["op"] == "build" and step.get("scan") and not sess.is_cold:
            aborted, _ = sess.scan_exhaust(step, getattr(typelib, step["kind"]), sess.T(step))
            if aborted:
                sess.scanned.add(core.jdump(step["t"]))
        if step["op"] == "probe" and step.get("scan") and not sess.is_cold:
            T = sess.T(step)
            x = sess.V(step["x"])
            if step["dir"] == "unmarshal":
                aborted, _ = sess.scan_exhaust(step, typelib.unmarshal, T, x)
            else:
                aborted, _ = sess.scan_exhaust(step, typelib.marshal, x, t=T)
            if aborted:
                sess.scanned.add(core.jdump(step["t"]))

    def exec_op(self, sess, i, step):
        import typelib

        if step["op"] == "respell":
            return self._respell(sess, i, step)
        if step["op"] != "probe":
            return None
        T = sess.T(step)
        x = sess.V(step["x"])
        sess.inputs[step["id"]] = x
        if step["dir"] == "unmarshal":
            return sess.guarded(sess.call, step, typelib.unmarshal, T, x)
        return sess.guarded(sess.call, step, typelib.marshal, x, t=T)

    def _respell(self, sess, i, step):
        """F1 at scale: build routines for many annotations, clear every memo and typing's caches,
        let the annotation objects die, spell the same annotations again (other order) and rebuild:
        each must behave as before."""
        import gc

        import typelib

        gl = sess.world.modules["vw0"].__dict__

        def behaviour(src):
            T = eval(src, gl)
            res = []
            for kind in ("marshaller", "unmarshaller"):
                b = sess.guarded(sess.call, step, getattr(typelib, kind), T)
                res.append(type(b.value).__name__ if b.ok else "build-raised:" + type(b.exc).__name__)
            for x in ({"$list": [1, "a"]}, "1", {"$dict": [["a", 1]]}):
                o = sess.guarded(sess.call, step, typelib.unmarshal, T, sess.V(x))
                res.append(o.canon())
            return res

        first = {}
        for src in step["srcs"]:
            first[src] = behaviour(src)
        sess.memos.clear("all")
        from .. import seams

        seams.clear_typing_caches()
        sess.world._tcache.clear()
        sess.results.clear()
        sess.outcomes.clear()
        gc.collect()
        sess.faults["respell"] += 1
        sess.fault_fired_before = True
        diffs = []
        for j in step["order2"]:
            src = step["srcs"][j]
            again = behaviour(src)
            if again != first[src]:
                diffs.append({"t": src, "before": _s(first[src]), "after": _s(again)})
        sess._c15_respell = diffs
        return Outcome(True, ["respell", len(step["srcs"]), len(diffs)])

    def nontrivial(self, sess, i, step, out, hit_delta):
        if step["op"] == "respell":
            return True
        if step["op"] == "probe":
            return core.jdump([step["t"], step["x"], step["dir"]]) in sess.probe_memo or sess.fault_fired_before
        if step["op"] == "build":
            return core.jdump([step["t"], step["kind"]]) in sess.build_memo or sess.fault_fired_before
        return False

    def check(self, sess, i, step, out):
        tsrc = model.tsrc(step["t"], "vw0") if isinstance(step.get("t"), dict) else ""
        if step["op"] == "respell":
            for d in sess._c15_respell[:3]:
                sess.violation("behaviour-not-repeatable", i, dict(d, via="respell after clearing every cache"), sig="not-repeatable:respell")
            return
        if step["op"] == "build":
            key = core.jdump([step["t"], step["kind"]])
            if not out.ok:
                if isinstance(out.exc, RecursionError) and step.get("low"):
                    sess.faults["low_headroom_build"] += 1
                    sess.fault_fired_before = True
                    sess.probes["build_aborted_by_recursion_error"] += 1
                    return
                sess.violation("build-raised", i, {"t": tsrc, "kind": step["kind"], "exc": f"{type(out.exc).__name__}: {out.exc}"[:240],
                                                   "after_fault": sess.fault_fired_before},
                               sig=f"build-raised:{type(out.exc).__name__}:{_tclass(step['t'])}")
                return
            cls = type(out.value).__name__
            prev = sess.build_memo.get(key)
            if prev is not None and prev != cls:
                sess.violation("rebuild-differs", i, {"t": tsrc, "kind": step["kind"], "before": prev, "now": cls}, sig=f"rebuild-differs:{_tclass(step['t'])}")
            sess.build_memo[key] = cls
            return
        if step["op"] != "probe":
            return
        if isinstance(out.exc, RecursionError):
            return
        # building inside a probe must not fail either (a call failing on this input is fine)
        if step.get("pass") and step["dir"] == "unmarshal":
            x = sess.inputs[step["id"]]
            if not out.ok or not (out.value is x or model.canon(out.value) == model.canon(sess.V(step["x"]))):
                sess.violation("not-pass-through", i, {"t": tsrc, "x": repr(step["x"])[:80], "got": repr(out)[:120]}, sig=f"not-pass-through:{_tclass(step['t'])}")
                return
        if out.ok and step["dir"] == "unmarshal":
            raw = _raw_member(out.value)
            if raw is not None:
                sess.violation("resolvable-position-passed-through", i, {"t": tsrc, "x": repr(step["x"])[:100], "where": raw}, sig=f"resolvable-passed-through:{_tclass(step['t'])}")
                return
        key = core.jdump([step["t"], step["x"], step["dir"]])
        mine = out.canon()
        if core.jdump(step["t"]) in sess.scanned:
            # builds of this annotation were cut short by RecursionError at every point they pass
            # through: the routine that finally got built must behave like one built in a cold process
            cold = sess.cold_exec({k: v for k, v in step.items() if k not in ("depth", "scan")})
            if "error" in cold:
                raise RuntimeError(f"harness: cold execution failed: {cold['error']}")
            sess.probes["probe_after_exhaust_scan_vs_cold"] += 1
            if cold.get("trepr") == sess.trepr(step) and cold["canon"] != mine:
                sess.violation("behaviour-not-repeatable", i, {"t": tsrc, "x": repr(step["x"])[:80], "dir": step["dir"], "cold": _s(cold["canon"]), "now": _s(mine),
                                                               "via": "builds aborted by RecursionError earlier in the run"}, sig=f"not-repeatable:after-exhaust:{_tclass(step['t'])}")
                return
        prev = sess.probe_memo.get(key)
        if prev is not None and prev != mine:
            sess.violation("behaviour-not-repeatable", i, {"t": tsrc, "x": repr(step["x"])[:80], "dir": step["dir"], "before": _s(prev), "now": _s(mine)},
                           sig=f"not-repeatable:{_tclass(step['t'])}")
        sess.probe_memo.setdefault(key, mine)
        if not out.ok and isinstance(out.exc, (KeyError, NameError, AttributeError, RuntimeError)) and _construction_error(out.exc):
            sess.violation("build-raised", i, {"t": tsrc, "via": "probe", "exc": f"{type(out.exc).__name__}: {out.exc}"[:240]},
                           sig=f"build-raised-in-probe:{type(out.exc).__name__}:{_tclass(step['t'])}")


def _raw_member(res, path="$", depth=0):
    """In a converted result: a dataclass field whose annotation names a dataclass but which still
    holds a raw mapping (the position is resolvable, so it must have been converted)."""
    import dataclasses
    import typing

    if depth > 12:
        return None
    if isinstance(res, (list, tuple)):
        for j, e in enumerate(res):
            r = _raw_member(e, f"{path}[{j}]", depth + 1)
            if r:
                return r
        return None
    if isinstance(res, dict):
        for k, e in res.items():
            r = _raw_member(e, f"{path}[{k!r}]", depth + 1)
            if r:
                return r
        return None
    if dataclasses.is_dataclass(res) and not isinstance(res, type):
        try:
            hints = typing.get_type_hints(type(res))
        except Exception:  # noqa: BLE001
            return None
        for f in dataclasses.fields(res):
            h = hints.get(f.name)
            v = getattr(res, f.name, None)
            if dataclasses.is_dataclass(h) and isinstance(v, dict):
                return f"{path}.{f.name}: {type(v).__name__} where {h.__name__} is declared"
            if typing.get_origin(h) is list and typing.get_args(h) and dataclasses.is_dataclass(typing.get_args(h)[0]) and isinstance(v, list):
                for j, e in enumerate(v):
                    if isinstance(e, dict):
                        return f"{path}.{f.name}[{j}]: dict where {typing.get_args(h)[0].__name__} is declared"
            r = _raw_member(v, f"{path}.{f.name}", depth + 1)
            if r:
                return r
    return None


def _construction_error(exc) -> bool:
    """Did the exception come out of routine construction (graph/context), not out of a conversion?"""
    tb = exc.__traceback__
    files = []
    while tb is not None:
        files.append((tb.tb_frame.f_code.co_filename, tb.tb_frame.f_code.co_name))
        tb = tb.tb_next
    return any(name in ("_marshaller", "_unmarshaller", "marshaller", "unmarshaller", "_get_unmarshaller", "static_order", "get_type_graph", "__missing__", "__init__", "_fields_by_var", "evaluate", "_evaluate", "resolved")
               and "typelib" in f for f, name in files[-6:])


def _tclass(t) -> str:
    if t["k"] == "raw":
        return t["src"].replace(" ", "")[:40]
    return "U:" + t["k"]


def _s(x, n=200):
    s = core.jdump(x) if not isinstance(x, str) else x
    return s if len(s) <= n else s[:n] + "..."


PROP = C15()
