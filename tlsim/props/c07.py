"""C07 - recursive and mutually recursive types work at every depth."""

from __future__ import annotations

import copy

from .. import conform, core, gen, hist, model
from ..session import Outcome
from . import PropBase, steps_with_ids
from .c06 import _first_non_plain

FAULTS = ("exhaust", "stack", "clear", "clear_typing", "reclimit", "root_order")


def _edge_wrap(edge_t, inner_v, inner_w):
    k = edge_t["k"]
    if k == "union":
        return inner_v, inner_w
    if k == "list":
        return {"$list": [inner_v]}, {"$list": [inner_w]}
    if k == "dict":
        return {"$dict": [["k", inner_v]]}, {"$dict": [["k", inner_w]]}
    if k == "tuplevar":
        return {"$tuple": [inner_v]}, {"$list": [inner_w]}
    raise ValueError(k)


def _edge_terminal(edge_t):
    k = edge_t["k"]
    if k == "union":
        return None, None
    if k == "list":
        return {"$list": []}, {"$list": []}
    if k == "dict":
        return {"$dict": []}, {"$dict": []}
    return {"$tuple": []}, {"$list": []}


def deep_pair(rng, group, mod, root_index, depth, cfg):
    """(value AST, None) of a chain of ``depth`` links through the cycle, as a flat ``$chain``
    (outermost level first) that is built iteratively."""
    n = len(group)
    levels = []
    for level in range(depth + 1):
        d = group[(root_index + level) % n]
        f = {}
        edge = None
        for fld in d["fields"]:
            if fld["n"] == "nxt":
                edge = fld["t"]["k"]
            elif fld["n"] == "more":
                f[fld["n"]] = _edge_terminal(fld["t"])[0]
            else:
                f[fld["n"]] = gen.gen_scalar_value(rng, fld["t"]["k"], cfg)
        levels.append({"tag": "$dict" if d["d"] == "typeddict" else "$obj", "cls": f"{mod}.{d['n']}", "f": f, "edge": edge, "edge_field": "nxt"})
    return {"$chain": levels}, None


class C07(PropBase):
    ID = "C07"
    TIMEOUT_IS_VERDICT = True
    QUICK_RUNS = 2000
    THOROUGH_RUNS = 40000
    QUICK_BUDGET_S = 60
    THOROUGH_BUDGET_S = 900
    RUN_TIMEOUT_S = {"quick": 60.0, "thorough": 240.0}
    FAULT_KINDS = FAULTS
    RULE = (
        "A case is one round trip (or build) over a generated recursive world: cycles over 1-3 classes (dataclass / plain / TypedDict "
        "/ NamedTuple) closed through Optional, list, dict, tuple[X, ...] or X | None edges; any class of the cycle or a container of "
        "one (list, dict, Optional, tuple) as root; values nested d levels (quick d <= 12, thorough d <= 150). Within the headroom "
        "(10*d + 250 frames below the recursion limit in force) the step must succeed, restore the value (C01), conform at every level "
        "(C03) and marshal to plain data at every level; beyond it only RecursionError is admissible. Non-trivial: d >= 2 and (first call "
        "of a fresh build, or preceded by a real RecursionError abort (F10), a cache clear between build and first call, a deep "
        "trampoline, or another root built first); distinct = distinct (operation digest, pre-state signature) pairs."
    )
    ASSUMPTIONS = ["the member-wise composition law is checked through its consequences: value restored with the same classes at every level, "
                   "structural conformance at every level, plain marshalled data at every level",
                   "a run that does not terminate within its wall budget is reported as a violation (termination is part of the property)"]

    def gen(self, seed, tier):
        rng = core.rng_for(seed, "gen")
        cfg = gen.Cfg.for_tier(tier, unions=False)
        sw = hist.swarm(rng, FAULTS)
        view = gen.View()
        mod = {"name": "vw0", "future": rng.random() < 0.5, "decls": []}
        group = gen.gen_recursive_group(rng, view, cfg, "vw0", 0)
        # keep scalar payload fields simple so that deep values stay cheap
        for d in group:
            mod["decls"].append(d)
        world = {"modules": [mod]}
        env = self.base_env(rng, fault_free=True)
        limit = rng.choice([1000, 1000, 2000, 5000]) if "reclimit" in sw else 1000
        env["reclimit"] = limit
        D = 12 if tier == "quick" else 150
        roots = []
        for ri, d in enumerate(group):
            base = {"k": "ref", "m": "vw0", "n": d["n"]}
            roots.append((ri, base, "self"))
            for wrap in ("list", "dict", "optional", "tuplevar", "pipe"):
                roots.append((ri, wrap, "wrap"))
        rng.shuffle(roots)
        roots = roots[: rng.randint(1, 4)]
        steps = []
        n = rng.randint(2, 10 if tier == "quick" else 16)
        while len(steps) < n:
            r = rng.random()
            if steps and "clear" in sw and r < 0.12:
                steps.append({"op": "clear", "group": rng.choice(["all", "routines", "graph"])})
                continue
            if steps and "clear_typing" in sw and r < 0.16:
                steps.append({"op": "clear_typing"})
                continue
            ri, shape, kind = rng.choice(roots)
            base = {"k": "ref", "m": "vw0", "n": group[ri]["n"]}
            if rng.random() < 0.15:
                steps.append({"op": "build", "kind": rng.choice(["marshaller", "unmarshaller", "codec"]), "t": self._root_t(base, shape, kind), "mod": "vw0"})
                continue
            exhaust = "exhaust" in sw and rng.random() < 0.2
            if exhaust:
                d = int(limit / rng.choice([3, 4, 5]))  # certainly beyond the headroom
            else:
                d = rng.choice([0, 1, 2, 3, rng.randint(0, D), rng.randint(0, D)])
            v, w = deep_pair(rng, group, "vw0", ri, d, cfg)
            t = self._root_t(base, shape, kind)
            if kind == "wrap":
                v, w = self._wrap_value(shape, v, w)
            step = {"op": "roundtrip", "t": t, "v": v, "mod": "vw0", "vdepth": d + (1 if kind == "wrap" and shape in ("list", "dict", "tuplevar") else 0)}
            if "stack" in sw and rng.random() < 0.3:
                step["depth"] = rng.randint(1, 60)
            if exhaust:
                step["exhaust"] = True
            steps.append(step)
        return {"prop": self.ID, "seed": seed, "tier": tier, "world": world, "env": env, "steps": steps_with_ids(steps), "meta": {"swarm": sw, "limit": limit}}

    def _root_t(self, base, shape, kind):
        if kind == "self":
            return base
        return {"list": {"k": "list", "a": base}, "dict": {"k": "dict", "a": [{"k": "str"}, base]},
                "optional": {"k": "union", "sp": "optional", "a": [base, {"k": "none"}]}, "tuplevar": {"k": "tuplevar", "a": base},
                "pipe": {"k": "union", "sp": "pipe", "a": [base, {"k": "none"}]}}[shape]

    def _wrap_value(self, shape, v, w):
        if shape == "list":
            return {"$list": [v]}, {"$list": [w]}
        if shape == "dict":
            return {"$dict": [["root", v]]}, {"$dict": [["root", w]]}
        if shape == "tuplevar":
            return {"$tuple": [v]}, {"$list": [w]}
        return v, w

    def comparable(self, sess, i, step):
        return False

    def pre_run(self, sess):
        sess.aborted = False
        sess.first_calls = set()

    def nontrivial(self, sess, i, step, out, hit_delta):
        if step["op"] != "roundtrip":
            return False
        key = core.jdump(step["t"])
        first = key not in sess.first_calls
        sess.first_calls.add(key)
        return step.get("vdepth", 0) >= 2 and (first or sess.aborted or sess.fault_fired_before or bool(step.get("depth")))

    def check(self, sess, i, step, out):
        if step["op"] == "build":
            if not out.ok:
                sess.violation("build-raised", i, {"t": model.tsrc(step["t"]), "kind": step["kind"], "exc": f"{type(out.exc).__name__}: {out.exc}"[:240]},
                               sig=f"build-raised:{type(out.exc).__name__}:{step['t']['k']}")
            return
        if step["op"] != "roundtrip":
            return
        sid = step.get("id", i)
        d = step.get("vdepth", 0)
        limit = sess.env["reclimit"]
        used = int(step.get("depth", 0)) + 80  # trampoline frames + harness frames below the call
        # CPython 3.12 also has a fixed C-level recursion limit that every routine call goes through
        # (measured: ~135-165 levels whatever sys.setrecursionlimit says): above 100 levels a
        # RecursionError is admissible at any Python limit
        within = 10 * d + 250 <= limit - used and d <= 100
        tsrc = model.tsrc(step["t"])
        if not out.ok:
            if isinstance(out.exc, RecursionError):
                if step.get("exhaust") or not within:
                    sess.faults["exhaust"] += 1
                    sess.aborted = True
                    sess.fault_fired_before = True
                    sess.probes["recursion_abort_injected"] += 1
                    return
                sess.violation("recursion-within-headroom", i, {"t": tsrc, "depth": d, "limit": limit, "stack_offset": step.get("depth", 0)},
                               sig=f"recursion-within-headroom:{step['t']['k']}")
                return
            stage = "marshal" if ("wire", sid) not in sess.results else "unmarshal"
            sess.violation("recursive-roundtrip-raised", i, {"t": tsrc, "depth": d, "stage": stage, "after_abort": sess.aborted,
                                                             "exc": f"{type(out.exc).__name__}: {out.exc}"[:240]},
                           sig=f"raised:{stage}:{type(out.exc).__name__}:{step['t']['k']}:{'after-abort' if sess.aborted else 'clean'}")
            return
        if sess.aborted:
            sess.probes["correct_step_after_abort"] += 1
        v = sess.inputs[sid]
        wire = sess.results.get(("wire", sid))
        bad = _first_non_plain(wire)
        if bad is not None:
            sess.violation("level-passed-through-raw", i, {"t": tsrc, "depth": d, "where": bad[0][:80], "class": bad[1], "direction": "marshal"},
                           sig=f"raw-level:marshal:{step['t']['k']}")
            return
        err = conform.conforms(step["t"], out.value, sess.world)
        if err is not None:
            sess.violation("level-passed-through-raw", i, {"t": tsrc, "depth": d, "where": err[:160], "direction": "unmarshal"},
                           sig=f"raw-level:unmarshal:{step['t']['k']}")
            return
        if not model.same(out.value, v):
            sess.violation("recursive-roundtrip-mismatch", i, {"t": tsrc, "depth": d, "after_abort": sess.aborted},
                           sig=f"mismatch:{step['t']['k']}:{'after-abort' if sess.aborted else 'clean'}")


PROP = C07()
