"""C07 - recursive and mutually recursive types work at every depth."""

from __future__ import annotations

import copy

from .. import conform, core, gen, hist, model
from ..session import Outcome
from . import PropBase, steps_with_ids
from .c06 import _first_non_plain

FAULTS = ("exhaust", "stack", "clear", "clear_typing", "reclimit", "root_order", "reject_deep", "exhaust_scan", "reload")


def _edge_wrap(edge_t, inner_v, inner_w):
    k = edge_t["k"]
    if k == "union":
        return inner_v, inner_w
    if k == "list":
        return {"$list": [inner_v]}, {"$list": [inner_w]}
    if k == "dict":
        return {"$dict": [["k", inner_v]]}, {"$dict": [["k", inner_w]]}
    if k == "tuplevar":
        return {"$tuple": [inner_v]}, {"$list": [inner_w]}
    raise ValueError(k)


def _edge_terminal(edge_t):
    k = edge_t["k"]
    if k == "union":
        return None, None
    if k == "list":
        return {"$list": []}, {"$list": []}
    if k == "dict":
        return {"$dict": []}, {"$dict": []}
    return {"$tuple": []}, {"$list": []}


def deep_pair(rng, group, mod, root_index, depth, cfg):
    """(value AST, None) of a chain of ``depth`` links through the cycle, as a flat ``$chain``
    (outermost level first) that is built iteratively."""
    n = len(group)
    levels = []
    level = -1
    while True:
        level += 1
        if level > depth and levels[-1]["edge"] != "ref":
            break  # (a value cannot end at a required member class: it goes on to the next edge it can end at)
        d = group[(root_index + level) % n]
        f = {}
        edge = None
        for fld in d["fields"]:
            if fld["n"] == "nxt":
                edge = fld["t"]["k"]
            elif fld["n"] == "more":
                f[fld["n"]] = _edge_terminal(fld["t"])[0]
            else:
                f[fld["n"]] = gen.gen_scalar_value(rng, fld["t"]["k"], cfg)
        levels.append({"tag": "$dict" if d["d"] == "typeddict" else "$obj", "cls": f"{mod}.{d['n']}", "f": f, "edge": edge, "edge_field": "nxt"})
    return {"$chain": levels}, None


def _wire_scalar(v):
    for k in ("date", "uuid", "int", "str"):
        try:
            return gen.scalar_wire(k, v)
        except Exception:
            continue
    return v


class C07(PropBase):
    ID = "C07"
    TIMEOUT_IS_VERDICT = True
    QUICK_RUNS = 2000
    THOROUGH_RUNS = 40000
    QUICK_BUDGET_S = 60
    THOROUGH_BUDGET_S = 900
    RUN_TIMEOUT_S = {"quick": 60.0, "thorough": 240.0}
    FAULT_KINDS = FAULTS
    RULE = (
        "A case is one round trip (or build) over a generated recursive world: cycles over 1-3 classes (dataclass / plain / TypedDict "
        "/ NamedTuple) closed through Optional, list, dict, tuple[X, ...] or X | None edges, some hops of a longer cycle being plain member classes; any class of the cycle or a container of "
        "one (list, dict, Optional, tuple) as root; values nested d levels (quick d <= 12, thorough d <= 150). Within the headroom "
        "(10*d + 250 frames below the recursion limit in force) the step must succeed, restore the value (C01), conform at every level "
        "(C03) and marshal to plain data at every level; beyond it only RecursionError is admissible. Non-trivial: d >= 2 and (first call "
        "of a fresh build, or preceded by a real RecursionError abort (F10), a cache clear between build and first call, a deep "
        "trampoline, or another root built first); distinct = distinct (operation digest, pre-state signature) pairs."
        ' Under the swept exhaustion fault a build or the marshal half of a round trip is first attempted from every stack depth at which it cannot complete.'
    )
    ASSUMPTIONS = ["the member-wise composition law is checked through its consequences: value restored with the same classes at every level, "
                   "structural conformance at every level, plain marshalled data at every level",
                   "a run that does not terminate within its wall budget is reported as a violation (termination is part of the property)"]

    def gen(self, seed, tier):
        rng = core.rng_for(seed, "gen")
        cfg = gen.Cfg.for_tier(tier, unions=False)
        sw = hist.swarm(rng, FAULTS)
        view = gen.View()
        mod = {"name": "vw0", "future": rng.random() < 0.5, "decls": []}
        group = gen.gen_recursive_group(rng, view, cfg, "vw0", 0)
        # keep scalar payload fields simple so that deep values stay cheap
        for d in group:
            # frozen (hashable, "immutable") classes of the cycle, and payloads whose equal values can be
            # written differently (Decimal exponents, equal instants at other offsets)
            if d["d"] == "dataclass" and rng.random() < 0.3:
                d.setdefault("flags", {})["frozen"] = True
            if rng.random() < 0.3:
                for f in d["fields"]:
                    if f["n"] == "v":
                        f["t"] = {"k": rng.choice(["dec", "dt"])}
            mod["decls"].append(d)
        # a recursive string-valued alias (cycle closed through a mapping and a union)
        alias_kind = rng.choice([None, "rec_first", "int_first"])
        if alias_kind:
            body = "dict[str, VwTree | int]" if alias_kind == "rec_first" else "dict[str, int | VwTree]"
            mod["decls"].append({"d": "raw", "n": "VwTree", "src": f"VwTree = typing.TypeAliasType('VwTree', {body!r})\n"})
        # a subclass of the first class of the cycle that adds nothing (its members are all inherited), and a
        # recursive alias written as a `type` statement (evaluated lazily, recurring as a generic argument)
        sub_root = group[0]["d"] == "dataclass" and rng.random() < 0.3
        if sub_root:
            fl = "frozen=True" if group[0].get("flags", {}).get("frozen") else ""
            mod["decls"].append({"d": "raw", "n": "VwRSub", "src": f"@dataclasses.dataclass({fl})\nclass VwRSub({group[0]['n']}):\n    pass\n"})
        # an unrelated class with bare (unparameterised) containers: routines built for it earlier in the process
        # say nothing about list[X] / dict[str, X] / tuple[X, ...]
        mod["decls"].append({"d": "raw", "n": "VwInv", "src": "@dataclasses.dataclass\nclass VwInv:\n    items: list = dataclasses.field(default_factory=list)\n"
                                                             "    extra: dict = dataclasses.field(default_factory=dict)\n    pair: tuple = ()\n    fixed: tuple[int, str] = (0, '')\n"})
        stmt_alias = rng.random() < 0.25
        if stmt_alias:
            mod["decls"].append({"d": "raw", "n": "VwTreeP", "src": "type VwTreeP = dict[str, VwTreeP] | int\n"})
        # a second module with classes of the same names (other members): calls issued from there must still
        # reach the first module's classes at every level of the recursion
        mod1 = {"name": "vw1", "future": False, "decls": [{"d": "dataclass", "n": d["n"], "fields": [{"n": "zz", "t": {"k": "int"}, "default": 0}], "flags": {}} for d in group]}
        # two classes of one name in the two modules, met in one graph: the second module's class holds the first
        # module's (which is recursive) on two edges
        mod["decls"].append({"d": "raw", "n": "VwTwin", "src": "@dataclasses.dataclass\nclass VwTwin:\n    sku: str = ''\n    qty: int = 0\n    parent: 'typing.Optional[VwTwin]' = None\n"})
        mod1["decls"].append({"d": "raw", "n": "VwTwin", "src": "@dataclasses.dataclass\nclass VwTwin:\n    name: str = ''\n"
                                                               "    parts: 'list[vw0.VwTwin]' = dataclasses.field(default_factory=list)\n    owner: 'typing.Optional[vw0.VwTwin]' = None\n"})
        world = {"modules": [mod, mod1]}
        env = self.base_env(rng, fault_free=True)
        limit = rng.choice([1000, 1000, 2000, 5000]) if "reclimit" in sw else 1000
        env["reclimit"] = limit
        D = 12 if tier == "quick" else 150
        roots = []
        for ri, d in enumerate(group):
            base = {"k": "ref", "m": "vw0", "n": d["n"]}
            roots.append((ri, base, "self"))
            for wrap in ("list", "dict", "optional", "tuplevar", "pipe"):
                roots.append((ri, wrap, "wrap"))
        rng.shuffle(roots)
        roots = roots[: rng.randint(1, 4)]
        if alias_kind:
            roots.append(("alias", None, "alias"))
        if stmt_alias:
            roots.append(("alias", "VwTreeP", "alias"))
        if sub_root:
            roots.append((0, "VwRSub", "sub"))
        burst = "exhaust" in sw and rng.random() < 0.4  # an exhaustion-heavy run on few roots
        # a rejection-heavy run: many inputs that are rightly refused deep inside the recursion, with
        # valid values in between (whatever unwinding leaves behind must not add up)
        rburst = "reject_deep" in sw and not burst and rng.random() < 0.5
        if burst:
            roots = roots[:1]
        if rburst:
            roots = [r for r in roots if r[2] == "self"][:1] or roots[:1]
        steps = []
        n = rng.randint(2, 10 if tier == "quick" else 16) if not burst else rng.randint(8, 14)
        if rburst:
            n = rng.randint(70, 130)
        while len(steps) < n:
            r = rng.random()
            if steps and "clear" in sw and r < 0.12:
                steps.append({"op": "clear", "group": rng.choice(["all", "routines", "graph"])})
                continue
            if steps and "clear_typing" in sw and r < 0.16:
                steps.append({"op": "clear_typing"})
                continue
            if steps and "reload" in sw and r < 0.22:
                steps.append({"op": "reload"})
                continue
            ri, shape, kind = rng.choice(roots)
            if kind == "alias":
                exhaust = "exhaust" in sw and rng.random() < (0.5 if burst else 0.2)
                d = int(limit / rng.choice([3, 4, 5])) if exhaust else rng.choice([0, 1, 2, 3, rng.randint(0, D)])
                levels = [{"tag": "$dict", "cls": "", "f": {"a": rng.randint(-5, 5), "b": rng.randint(0, 9)}, "edge": "union", "edge_field": "n", "terminal": 7}
                          for _ in range(d + 1)]
                bad = "reject_deep" in sw and not exhaust and rng.random() < 0.3
                if bad:
                    levels[-1]["terminal"] = "not-a-number"
                step = {"op": "roundtrip" if not bad else "unmarshal", "t": {"k": "raw", "src": shape or "VwTree"}, "mod": "vw0", "vdepth": d}
                step["x" if bad else "v"] = {"$chain": levels}
                if exhaust:
                    step["exhaust"] = True
                if bad:
                    step["rejected"] = True
                steps.append(step)
                continue
            base = {"k": "ref", "m": "vw0", "n": group[ri]["n"]}
            if kind == "sub":
                # the subclass as the root: built, and given the wire form of a value of its base's shape
                v, w = deep_pair(rng, group, "vw0", 0, rng.choice([0, 1, 2, 3]), cfg)
                wl = copy.deepcopy(v["$chain"])
                for lv in wl:
                    lv["tag"] = "$dict"
                    lv["f"] = {fk: _wire_scalar(fv) if isinstance(fv, dict) and not any(t_ in fv for t_ in ("$list", "$dict", "$tuple")) else fv for fk, fv in lv["f"].items()}
                steps.append(rng.choice([{"op": "build", "kind": rng.choice(["marshaller", "unmarshaller", "codec"]), "t": {"k": "raw", "src": "VwRSub"}, "mod": "vw0"},
                                         {"op": "unmarshal", "t": {"k": "raw", "src": "VwRSub"}, "x": {"$chain": wl}, "mod": "vw0", "vdepth": len(wl), "sub": True}]))
                continue
            if rng.random() < 0.15:
                steps.append({"op": "build", "kind": rng.choice(["marshaller", "unmarshaller", "codec"]), "t": self._root_t(base, shape, kind), "mod": "vw0"})
                if "exhaust_scan" in sw and rng.random() < 0.5:
                    steps[-1]["scan"] = True  # the build is first cut short by RecursionError at every point it passes through
                continue
            exhaust = "exhaust" in sw and rng.random() < (0.5 if burst else 0.2)
            if exhaust:
                d = int(limit / rng.choice([3, 4, 5]))  # certainly beyond the headroom
            else:
                d = rng.choice([0, 1, 2, 3, rng.randint(0, D), rng.randint(0, D)])
            v, w = deep_pair(rng, group, "vw0", ri, d, cfg)
            t = self._root_t(base, shape, kind)
            if rburst and kind == "self":
                d = rng.randint(max(6, D - 4), D) if rng.random() < 0.75 else rng.randint(3, 8)
                v, w = deep_pair(rng, group, "vw0", ri, d, cfg)
            if "reject_deep" in sw and not exhaust and kind == "self" and d >= 1 and rng.random() < (0.8 if rburst else 0.3):
                # F11 deep inside: the wire form of the chain with an unconvertible innermost scalar;
                # the rejection unwinds through every proxy on the way up
                wl = copy.deepcopy(v["$chain"])
                for lv in wl:
                    lv["tag"] = "$dict"
                    for fk, fv in list(lv["f"].items()):
                        lv["f"][fk] = gen.scalar_wire("x", fv) if not isinstance(fv, dict) or any(t_ in fv for t_ in ("$list", "$dict", "$tuple")) else _wire_scalar(fv)
                if rng.random() < 0.4 and all(lv["edge"] in ("union", "list", "dict", "ref") for lv in wl[:-1]):
                    # ... refused, then repaired in place and submitted again (the same objects)
                    path = []
                    for lv in wl[:-1]:
                        path += {"union": ["nxt"], "ref": ["nxt"], "list": ["nxt", 0], "dict": ["nxt", "k"]}[lv["edge"]]
                    steps.append({"op": "retry_repaired", "t": t, "x": {"$chain": copy.deepcopy(wl)}, "path": path, "field": "v",
                                  "bad": {"$list": [{"$list": []}]}, "v": v, "mod": "vw0", "vdepth": d})
                    continue
                wl[-1]["f"]["v"] = {"$list": [{"$list": []}]}
                steps.append({"op": "unmarshal", "t": t, "x": {"$chain": wl}, "mod": "vw0", "vdepth": d, "rejected": True})
                continue
            if kind == "self" and d >= 1 and not exhaust and rng.random() < 0.15:
                # a partly built input: some levels already are instances of their class (classes do not
                # validate what they are constructed with), all members still in wire form
                ml = copy.deepcopy(v["$chain"])
                for li, lv in enumerate(ml):
                    if li == 0 or lv["tag"] == "$dict" or rng.random() < 0.5:
                        lv["tag"] = "$dict" if (li == 0 or lv["tag"] == "$dict") else lv["tag"]
                    for fk, fv in list(lv["f"].items()):
                        lv["f"][fk] = gen.scalar_wire("x", fv) if not isinstance(fv, dict) or any(t_ in fv for t_ in ("$list", "$dict", "$tuple")) else _wire_scalar(fv)
                steps.append({"op": "unmarshal_mixed", "t": t, "x": {"$chain": ml}, "v": v, "mod": "vw0", "vdepth": d})
                continue
            if kind == "wrap":
                v, w = self._wrap_value(shape, v, w)
            step = {"op": "roundtrip", "t": t, "v": v, "mod": "vw0", "vdepth": d + (1 if kind == "wrap" and shape in ("list", "dict", "tuplevar") else 0)}
            if "stack" in sw and rng.random() < 0.3:
                step["depth"] = rng.randint(1, 60)
            if "exhaust_scan" in sw and not exhaust and rng.random() < 0.25:
                step["scan"] = True  # as above, for the marshal half (incl. the lazy resolution of the cycle proxies)
            if not exhaust and kind == "self" and isinstance(v, dict) and "$chain" in v and rng.random() < 0.3:
                # right after it: the same chain with every payload written differently but equal
                # (==, same hash) - each level must still be converted from its own members
                tw = copy.deepcopy(v)
                changed = False
                for lv in tw["$chain"]:
                    for fk, fv in list(lv["f"].items()):
                        t2 = hist.value_twin(rng, fv, numeric=False) if isinstance(fv, dict) else None
                        if t2 is not None:
                            lv["f"][fk] = t2
                            changed = True
                if changed:
                    steps.append(step)
                    step = {"op": "roundtrip", "t": t, "v": tw, "mod": "vw0", "vdepth": step["vdepth"], "twin": True}
            if exhaust:
                step["exhaust"] = True
                if kind == "self" and rng.random() < 0.5:
                    # exhaust the stack in the *unmarshal* direction: hand over the wire form directly
                    wl = copy.deepcopy(v["$chain"]) if isinstance(v, dict) and "$chain" in v else None
                    if wl is not None:
                        for lv in wl:
                            lv["tag"] = "$dict"
                            lv["f"] = {fk: _wire_scalar(fv) if isinstance(fv, dict) and not any(t_ in fv for t_ in ("$list", "$dict", "$tuple")) else fv
                                       for fk, fv in lv["f"].items()}
                        step = {"op": "unmarshal", "t": t, "x": {"$chain": wl}, "mod": "vw0", "vdepth": d, "exhaust": True, "rejected": True}
            steps.append(step)
        if rng.random() < 0.5:
            steps.insert(0, {"op": "build", "kind": rng.choice(["marshaller", "codec", "unmarshaller"]), "t": {"k": "raw", "src": "VwInv"}, "mod": "vw0"})
        if rng.random() < 0.4:
            inner = lambda sku, qty, parent=None: {"$obj": "vw0.VwTwin", "f": dict({"sku": sku, "qty": qty}, **({"parent": parent} if parent else {}))}  # noqa: E731
            want = {"$obj": "vw1.VwTwin", "f": {"name": "root", "parts": {"$list": [inner("s1", 1, inner("s2", 2, inner("s4", 4)))]}, "owner": inner("s3", 3)}}
            wire = {"$dict": [["name", "root"], ["parts", {"$list": [{"$dict": [["sku", "s1"], ["qty", "1"], ["parent", {"$dict": [["sku", "s2"], ["qty", "2"], ["parent", {"$dict": [["sku", "s4"], ["qty", 4]]}]]}]]}]}],
                              ["owner", {"$dict": [["sku", "s3"], ["qty", "3"]]}]]}
            steps.insert(rng.randint(0, len(steps)), {"op": "unmarshal_mixed", "t": {"k": "ref", "m": "vw1", "n": "VwTwin"}, "x": wire, "v": want, "mod": rng.choice(["vw0", "vw1"]), "vdepth": 3})
        other_first = rng.random() < 0.5
        for st in steps:
            t = st.get("t")
            if isinstance(t, dict) and not any(n_["k"] == "raw" for n_ in model.twalk(t)) and st.get("op") in ("roundtrip", "unmarshal", "build", "unmarshal_mixed"):
                if (other_first and st is next((x for x in steps if x.get("t") is not None), None)) or rng.random() < 0.35:
                    st["mod"] = "vw1"  # issued from the module whose own classes bear the same names
        return {"prop": self.ID, "seed": seed, "tier": tier, "world": world, "env": env, "steps": steps_with_ids(steps), "meta": {"swarm": sw, "limit": limit}}

    def exec_op(self, sess, i, step):
        if step["op"] == "reload":
            # the world's modules are executed again: new classes under the old names (every level of a value
            # converted from now on is an instance of the new classes)
            sess.world.reload()
            sess.results.clear()
            sess.prebuilt.clear()
            sess.faults["reload"] += 1
            sess.fault_fired_before = True
            return Outcome(True, "reloaded")
        if step["op"] != "unmarshal_mixed":
            return None
        import typelib

        x = sess.V(step["x"])
        sess.inputs[step.get("id", i)] = x
        return sess.guarded(sess.call, step, typelib.unmarshal, sess.T(step), x)

    def _root_t(self, base, shape, kind):
        if kind == "self":
            return base
        return {"list": {"k": "list", "a": base}, "dict": {"k": "dict", "a": [{"k": "str"}, base]},
                "optional": {"k": "union", "sp": "optional", "a": [base, {"k": "none"}]}, "tuplevar": {"k": "tuplevar", "a": base},
                "pipe": {"k": "union", "sp": "pipe", "a": [base, {"k": "none"}]}}[shape]

    def _wrap_value(self, shape, v, w):
        if shape == "list":
            return {"$list": [v]}, {"$list": [w]}
        if shape == "dict":
            return {"$dict": [["root", v]]}, {"$dict": [["root", w]]}
        if shape == "tuplevar":
            return {"$tuple": [v]}, {"$list": [w]}
        return v, w

    def comparable(self, sess, i, step):
        return False

    def pre_run(self, sess):
        sess.aborted = False
        sess.first_calls = set()

    def nontrivial(self, sess, i, step, out, hit_delta):
        if step["op"] != "roundtrip":
            return False
        key = core.jdump(step["t"])
        first = key not in sess.first_calls
        sess.first_calls.add(key)
        return step.get("vdepth", 0) >= 2 and (first or sess.aborted or sess.fault_fired_before or bool(step.get("depth")))

    def check(self, sess, i, step, out):
        if step["op"] == "build":
            if not out.ok:
                sess.violation("build-raised", i, {"t": model.tsrc(step["t"]), "kind": step["kind"], "exc": f"{type(out.exc).__name__}: {out.exc}"[:240]},
                               sig=f"build-raised:{type(out.exc).__name__}:{step['t']['k']}")
            return
        if step["op"] == "unmarshal" and step.get("rejected"):
            if not out.ok:
                if step.get("exhaust") and isinstance(out.exc, RecursionError):
                    sess.faults["exhaust"] += 1
                    sess.aborted = True
                    sess.probes["recursion_abort_injected_in_unmarshal"] += 1
                else:
                    sess.faults["reject_deep"] += 1
                    sess.probes["rejection_unwound_through_proxies"] += 1
                sess.fault_fired_before = True
            return
        if step["op"] == "unmarshal_mixed":
            if not out.ok:
                if not isinstance(out.exc, RecursionError):
                    sess.violation("recursive-roundtrip-raised", i, {"t": model.tsrc(step["t"]), "depth": step.get("vdepth"), "stage": "unmarshal of a partly built input",
                                                                       "exc": f"{type(out.exc).__name__}: {out.exc}"[:200]}, sig=f"mixed-input-raised:{type(out.exc).__name__}")
                return
            want = sess.V(step["v"])
            if not model.same(out.value, want):
                sess.violation("level-passed-through-raw", i, {"t": model.tsrc(step["t"]), "depth": step.get("vdepth"), "got": repr(out.value)[:240], "want": repr(want)[:240]},
                               sig="level-passed-through-raw")
            return
        if step["op"] == "retry_repaired":
            first, second = sess.retry
            if first.ok:
                return  # the "unconvertible" member was convertible after all: no fault, nothing to judge
            if isinstance(first.exc, RecursionError) or (not second.ok and isinstance(second.exc, RecursionError)):
                return
            want = sess.V(step["v"])
            if not second.ok or not model.same(second.value, want):
                sess.violation("repaired-input-refused", i, {"t": model.tsrc(step["t"]), "depth": step.get("vdepth"), "first": repr(first)[:120], "second": repr(second)[:200]},
                               sig=f"repaired-input-refused:{'raised' if not second.ok else 'value'}")
            return
        if step["op"] != "roundtrip":
            return
        sid = step.get("id", i)
        d = step.get("vdepth", 0)
        limit = sess.env["reclimit"]
        used = int(step.get("depth", 0)) + 80  # trampoline frames + harness frames below the call
        # CPython 3.12 also has a fixed C-level recursion limit that every routine call goes through
        # (measured: ~135-165 levels whatever sys.setrecursionlimit says): above 100 levels a
        # RecursionError is admissible at any Python limit
        within = 10 * d + 250 <= limit - used and d <= 100
        tsrc = model.tsrc(step["t"])
        if not out.ok:
            if isinstance(out.exc, RecursionError):
                if step.get("exhaust") or not within:
                    sess.faults["exhaust"] += 1
                    sess.aborted = True
                    sess.fault_fired_before = True
                    sess.probes["recursion_abort_injected"] += 1
                    return
                sess.violation("recursion-within-headroom", i, {"t": tsrc, "depth": d, "limit": limit, "stack_offset": step.get("depth", 0)},
                               sig=f"recursion-within-headroom:{step['t']['k']}")
                return
            stage = "marshal" if ("wire", sid) not in sess.results else "unmarshal"
            sess.violation("recursive-roundtrip-raised", i, {"t": tsrc, "depth": d, "stage": stage, "after_abort": sess.aborted,
                                                             "exc": f"{type(out.exc).__name__}: {out.exc}"[:240]},
                           sig=f"raised:{stage}:{type(out.exc).__name__}:{step['t']['k']}:{'after-abort' if sess.aborted else 'clean'}")
            return
        if sess.aborted:
            sess.probes["correct_step_after_abort"] += 1
        v = sess.inputs[sid]
        wire = sess.results.get(("wire", sid))
        bad = _first_non_plain(wire)
        if bad is not None:
            sess.violation("level-passed-through-raw", i, {"t": tsrc, "depth": d, "where": bad[0][:80], "class": bad[1], "direction": "marshal"},
                           sig=f"raw-level:marshal:{step['t']['k']}")
            return
        err = conform.conforms(step["t"], out.value, sess.world) if step["t"]["k"] != "raw" else None
        if err is not None:
            sess.violation("level-passed-through-raw", i, {"t": tsrc, "depth": d, "where": err[:160], "direction": "unmarshal"},
                           sig=f"raw-level:unmarshal:{step['t']['k']}")
            return
        if not model.same(out.value, v):
            sess.violation("recursive-roundtrip-mismatch", i, {"t": tsrc, "depth": d, "after_abort": sess.aborted},
                           sig=f"mismatch:{step['t']['k']}:{'after-abort' if sess.aborted else 'clean'}")
            return
        # every level is converted - also an empty leaf container: none of the caller's own mutable
        # containers (here: those of the wire form that was unmarshalled) is handed back inside the result
        wire = sess.results.get(("wire", sid))
        if wire is not None:
            mine = model.containers_in(out.value)
            theirs = model.containers_in(wire)
            shared = [c for c in mine if c in theirs]
            if shared:
                sess.violation("level-passed-through-raw", i, {"t": tsrc, "depth": d, "where": f"{len(shared)} container(s) of the input are part of the result "
                                                               f"({type(mine[shared[0]]).__name__} of length {len(mine[shared[0]])})", "direction": "unmarshal"},
                               sig="raw-level:input-container-in-result")


PROP = C07()
