"""C08 - union members are tried in declared order, None always honoured."""

from __future__ import annotations

import copy
import itertools

from .. import core, gen, hist, model
from ..session import Outcome
from . import PropBase, steps_with_ids

FAULTS = ("reorder", "clear", "clear_typing", "shrink", "stack", "exhaust_scan")

WORLD = {"modules": [{"name": "vw0", "future": False, "decls": [
    {"d": "dataclass", "n": "VwP", "fields": [{"n": "a", "t": {"k": "int"}}, {"n": "b", "t": {"k": "str"}, "default": "x"}], "flags": {}},
    {"d": "enum", "n": "VwE", "base": "Enum", "members": [["M0", 1], ["M1", "a"], ["M2", "2020-01-01"]]},
    {"d": "dataclass", "n": "VwQ", "fields": [{"n": "a", "t": {"k": "str"}}, {"n": "c", "t": {"k": "dt"}, "default": None}], "flags": {"frozen": True}},
    # members that are optional in their own right (typing does not flatten these into the union)
    {"d": "alias", "n": "VwMaybeInt", "t": {"k": "union", "sp": "pipe", "a": [{"k": "int"}, {"k": "none"}]}},
    {"d": "newtype", "n": "VwMaybeFloat", "t": {"k": "union", "sp": "optional", "a": [{"k": "float"}, {"k": "none"}]}},
]}]}

POOL = [
    {"k": "int"}, {"k": "str"}, {"k": "float"}, {"k": "dec"}, {"k": "date"}, {"k": "dt"}, {"k": "uuid"},
    {"k": "list", "a": {"k": "int"}}, {"k": "dict", "a": [{"k": "str"}, {"k": "int"}]},
    {"k": "ref", "m": "vw0", "n": "VwP"}, {"k": "ref", "m": "vw0", "n": "VwE"}, {"k": "lit", "v": [1, "a", True]},
    {"k": "bool"}, {"k": "ref", "m": "vw0", "n": "VwQ"}, {"k": "tuple", "a": [{"k": "int"}, {"k": "str"}]}, {"k": "td"}, {"k": "frac"},
    {"k": "ref", "m": "vw0", "n": "VwMaybeInt"}, {"k": "ref", "m": "vw0", "n": "VwMaybeFloat"}, {"k": "lit", "v": [1, 2, None]},
    # a member that tells bytes from the equal text without being a bytes type (protocol verbs, magic numbers)
    {"k": "lit", "v": [{"$b": b"GET".hex()}, {"$b": b"PUT".hex()}]}, {"k": "lit", "v": [{"$b": b"1".hex()}, "a"]},
]
NONE = {"k": "none"}


def _view():
    v = gen.View()
    for d in WORLD["modules"][0]["decls"]:
        v.add("vw0", d, {"enum": "enum", "alias": "alias", "newtype": "newtype"}.get(d["d"], "struct"))
    return v


class C08(PropBase):
    ID = "C08"
    QUICK_RUNS = 3000
    THOROUGH_RUNS = 120000
    QUICK_BUDGET_S = 60
    THOROUGH_BUDGET_S = 720
    FAULT_KINDS = FAULTS
    RULE = (
        "A case is one unmarshal or marshal through a union of 2-4 members drawn from a 22-type pool (int, str, float, bool, Decimal, "
        "Fraction, date, datetime, timedelta, UUID, list[int], dict[str,int], tuple[int,str], two dataclasses, an Enum, two Literals with bytes members, a Literal, and three members that are optional themselves: an alias of int | None, a NewType over Optional[float], Literal[1, 2, None]) in a "
        "seeded member order and spelling (typing.Union / Optional / X|Y), None at a seeded position, on a member wire form or a junk "
        "input. Expected = what the first member routine in declared order that accepts the input returns, each obtained "
        "independently; None for None when None is a member; ValueError iff every member rejects. Non-trivial: another order of the "
        "same member set was built earlier in the same process (F5/F6), or a cache clear fired in between; distinct = distinct "
        "(operation digest, pre-state signature) pairs."
    )
    ASSUMPTIONS = ["one-shot iterators are excluded as inputs (acceptance by a member would be stateful)",
                   "a violation whose outcome equals the expectation under a member order of the same set seen earlier in the run is attributed to "
                   "the recorded union-order-alias finding"]

    def gen(self, seed, tier):
        rng = core.rng_for(seed, "gen")
        cfg = gen.Cfg.for_tier(tier)
        sw = hist.swarm(rng, FAULTS)
        lk = _view().lookup()
        env = self.base_env(rng, fault_free=True)
        nsets = rng.randint(1, 3)
        sets = []
        for _ in range(nsets):
            members = rng.sample(POOL, rng.randint(2, 4))
            if rng.random() < 0.25:
                members = members[:1] + [NONE]  # the plain Optional[T]: one real member
            elif rng.random() < 0.5:
                members = members[: 3] + [NONE]
            sets.append(members)
        steps = []
        n = rng.randint(1, 12 if tier == "quick" else 30)
        fk = [k for k in sw if k in ("clear", "clear_typing", "shrink")]
        orders = {}
        while len(steps) < n:
            if fk and steps and rng.random() < 0.15:
                steps.append(hist.fault_step(rng, rng.choice(fk), steps))
                continue
            si = rng.randrange(len(sets))
            members = list(sets[si])
            if si not in orders or ("reorder" in sw and rng.random() < 0.6):
                rng.shuffle(members)
                orders.setdefault(si, []).append([core.jdump(m) for m in members])
            else:
                keys = rng.choice(orders[si])
                members = [next(m for m in sets[si] if core.jdump(m) == k) for k in keys]
            if len(members) == 2 and members[1]["k"] == "none":
                sp = rng.choice(["optional", "pipe", "typing"])
            else:
                sp = rng.choice(["pipe", "typing"])
            t = {"k": "union", "sp": sp, "a": copy.deepcopy(members)}
            m = rng.choice(members)
            v, w = gen.gen_pair(rng, m, lk, cfg) if m["k"] != "none" else (None, None)
            step = {"t": t, "mod": "vw0"}
            if "stack" in sw and rng.random() < 0.2:
                step["depth"] = rng.randint(1, 30)
            if rng.random() < 0.3:
                step.update(op="marshal", v=v if rng.random() < 0.85 else _junk(rng))
            else:
                r = rng.random()
                if r < 0.45:
                    x = copy.deepcopy(w)
                    if isinstance(x, dict) and "$b" in x and rng.random() < 0.4:
                        x = {rng.choice(["$ba", "$mv"]): x["$b"]}  # the same octets in another binary carrier
                elif r < 0.6:
                    txt = hist.json_text(w)
                    x = hist.carry(txt, rng.choice(["str", "bytes"])) if txt is not None else copy.deepcopy(w)
                elif r < 0.7:
                    x = copy.deepcopy(v)
                else:
                    x = _junk(rng)
                if rng.random() < 0.12 and any(mm["k"] in ("list", "dict") for mm in members):
                    # a one-shot iterator: every member is offered the whole of it (a member that reads some of it
                    # before refusing does not leave the next one the remainder)
                    x = {"$iter": rng.choice([["1", "2"], [1, 2, 3], [["a", 1], ["b", 2]], ["x"], []])}
                step.update(op="unmarshal", x=x)
            if "exhaust_scan" in sw and rng.random() < 0.35:
                # first from every stack depth at which the call cannot complete: with next to no stack left
                # the union dies of RecursionError or answers as at any depth - a later, shallower member
                # must not answer in place of the first acceptor
                step["scan"] = True
                step.pop("depth", None)
            steps.append(step)
        return {"prop": self.ID, "seed": seed, "tier": tier, "world": copy.deepcopy(WORLD), "env": env, "steps": steps_with_ids(steps), "meta": {"swarm": sw}}

    def comparable(self, sess, i, step):
        return False

    def pre_run(self, sess):
        sess.orders_seen = {}  # member set -> list of orders (list of keys) seen so far

    def nontrivial(self, sess, i, step, out, hit_delta):
        if step["op"] not in ("marshal", "unmarshal"):
            return False
        fs = frozenset(core.jdump(a) for a in step["t"]["a"])
        order = [core.jdump(a) for a in step["t"]["a"]]
        other = any(o != order for o in sess.orders_seen.get(fs, ()))
        return other or sess.fault_fired_before

    def _expected(self, sess, step, members, which):
        """Outcome under the first-acceptor rule over independently obtained member routines."""
        import typelib

        nullable = any(m["k"] == "none" for m in members)
        raw = step["x"] if which == "unmarshal" else step["v"]
        if nullable and raw is None:
            return Outcome(True, None)
        get = typelib.unmarshaller if which == "unmarshal" else typelib.marshaller
        for m in members:
            T = sess.world.realize(m, "vw0")
            val = sess.V(raw)
            try:
                r = sess.world.call("vw0", 0, get(T), val)
            except RecursionError:
                raise
            except Exception:
                continue
            return Outcome(True, r)
        return Outcome(False, exc=ValueError("all members rejected"))

    def check(self, sess, i, step, out):
        if step["op"] not in ("marshal", "unmarshal"):
            return
        members = step["t"]["a"]
        fs = frozenset(core.jdump(a) for a in members)
        order = [core.jdump(a) for a in members]
        earlier = [o for o in sess.orders_seen.get(fs, ()) if o != order]
        if earlier:
            sess.faults["reorder"] += 1
            sess.fault_fired_before = True
        sess.orders_seen.setdefault(fs, [])
        if order not in sess.orders_seen[fs]:
            sess.orders_seen[fs].append(order)
        exp = self._expected(sess, step, members, step["op"])
        if _agree(out, exp):
            return
        # attribution to the union-order-alias finding: the outcome is the one expected under an
        # order of the same member set that was built earlier in this process
        for o in earlier:
            alt_members = [next(m for m in members if core.jdump(m) == k) for k in o]
            alt = self._expected(sess, step, alt_members, step["op"])
            if _agree(out, alt):
                sess.violation("order-violated", i, {"t": model.tsrc(step["t"]), "got": repr(out)[:160], "expected": repr(exp)[:160], "as_if_order": o},
                               sig="union-order-alias")
                return
        kind = "none-not-honoured" if (any(m["k"] == "none" for m in members) and (step.get("x", step.get("v")) is None)) else (
            "raised-instead-of-fallthrough" if not out.ok and exp.ok else ("accepted-instead-of-valueerror" if out.ok and not exp.ok else
                                                                             ("wrong-exception" if not out.ok else "wrong-member")))
        sess.violation("order-violated", i, {"t": model.tsrc(step["t"]), "input": _s(step.get("x", step.get("v"))), "got": repr(out)[:160],
                                             "expected": repr(exp)[:160]}, sig=f"{step['op']}:{kind}")


def _agree(out, exp) -> bool:
    if out.ok != exp.ok:
        return False
    if out.ok:
        return model.same(out.value, exp.value)
    return isinstance(out.exc, ValueError)


def _junk(rng):
    for _ in range(10):
        j = hist.junk(rng)
        if not (isinstance(j, dict) and ("$gen" in j or "$iter" in j)):
            return j
    return None


def _s(x, n=200):
    s = core.jdump(x) if not isinstance(x, str) else x
    return s if len(s) <= n else s[:n] + "..."


PROP = C08()
