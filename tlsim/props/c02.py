"""C02 - JSON wire round trip and agreement of all entry points."""

from __future__ import annotations

import copy
import json

from .. import core, gen, hist, model, peers
from ..session import Outcome
from . import PropBase, steps_with_ids

FAULTS = ("clear", "clear_typing", "twin", "peer_failure", "shrink", "stack", "exhaust_scan", "mutate_result", "reload")
PEERS = ("default", "json", "tag")


class C02(PropBase):
    ID = "C02"
    REPLICAS = 2
    QUICK_RUNS = 2500
    THOROUGH_RUNS = 80000
    QUICK_BUDGET_S = 60
    THOROUGH_BUDGET_S = 720
    FAULT_KINDS = FAULTS
    RULE = (
        "A case is one 'agree' step of a seeded history: for (T, v, peer configuration) all three encode entry points "
        "(typelib.encode, Codec.encode on a codec obtained now or earlier in the history, encoder(marshal(v))) and the three decode "
        "paths are evaluated together and compared; the bytes are parsed with the standard json module and compared with "
        "marshal(v, t=T); decode(encode(v)) is compared with v for union-free T; bytes-like T must be carried verbatim. "
        "Non-trivial: the codec handle predates a fired cache clear (stale handle), or a peer failed on an earlier call of the "
        "same configuration, or a twin/other fault fired before; distinct = distinct (operation digest, pre-state signature)."
        ' Under the twin fault, values that compare equal to a pooled value but are written differently (Decimal exponent, equal instant at another offset, 0.0/-0.0) go through the same codec.'
        " Under the reload fault the hint is a typing.ForwardRef naming a world class, the world's modules are executed again between two uses, every entry point is given a reference object of its own, and what is decoded must be an instance of the class the reference names now."
    )
    ASSUMPTIONS = ["mappings have str keys, ints are within 64 bits, floats finite, strings valid Unicode",
                   "decode(encode(v)) == v is judged for union-free T only; unions carry the ambiguity caveats decided under C01",
                   "peers are the three stubs {default (orjson), stdlib json, tagging codec}"]

    def gen(self, seed, tier):
        rng = core.rng_for(seed, "gen")
        cfg = gen.Cfg.for_tier(tier, int64=True, str_keys_only=True)
        if tier == "thorough":
            cfg.size_max = 300  # one agree step converts its value about a dozen times (three entry points, both directions, references)
        sw = hist.swarm(rng, FAULTS)
        world, view = gen.gen_world(rng, cfg)
        lk = view.lookup()
        mods = [m["name"] for m in world["modules"]]
        env = self.base_env(rng, fault_free=not sw)
        pool = []
        # bytes-like types named through wrappers: still carried verbatim
        m0 = world["modules"][0]
        for d in ({"d": "alias", "n": "VwBytesS", "string": True, "t": {"k": "bytes"}}, {"d": "newtype", "n": "VwBytesN", "t": {"k": "bytes"}},
                  {"d": "alias", "n": "VwBytesA", "t": {"k": "bytearray"}}):
            m0["decls"].append(d)  # (not offered to the type generator: only ever the root type)
            lk[(m0["name"], d["n"])] = {"m": m0["name"], "n": d["n"], "decl": d, "cat": d["d"], "hashable": False, "rec": False, "key_ok": False}
        for t in gen.root_types(view, rng, cfg, rng.randint(1, 4)):
            if rng.random() < 0.16:
                t = rng.choice([{"k": "bytes"}, {"k": "bytearray"}, {"k": "ref", "m": m0["name"], "n": "VwBytesS"}, {"k": "ref", "m": m0["name"], "n": "VwBytesS"}, {"k": "ref", "m": m0["name"], "n": "VwBytesN"},
                                {"k": "ref", "m": m0["name"], "n": "VwBytesA"}])
            vals = [gen.gen_value(rng, t, lk, cfg) for _ in range(rng.randint(1, 2))]
            if rng.random() < 0.15:
                # a scalar hint at the top with values that are instances of subclasses (bool for int included)
                t, vals = rng.choice([({"k": "int"}, [True, {"$intsub": 5}, False]), ({"k": "float"}, [{"$floatsub": "1.5"}, {"$f": "2.5"}]),
                                      ({"k": "str"}, [{"$strsub": "s\u00e9"}, "plain"]), ({"k": "int"}, [{"$intsub": -3}, 7])])
            if rng.random() < 0.12:
                # positions that are passed through (bare containers, Any): what the decoder built reaches the
                # caller as it is - and is the caller's to edit
                t = {"k": "raw", "src": rng.choice(["dict", "list", "dict[str, typing.Any]", "list[dict]", "typing.Any"])}
                nested = {"$dict": [["a", {"$dict": [["b", {"$list": [1, 2]}]]}], ["c", {"$list": [{"$dict": [["d", 1]]}]}]]}
                vals = [nested if "dict" in t["src"].split("[")[0] or t["src"] == "typing.Any" else {"$list": [copy.deepcopy(nested), {"$dict": [["e", {"$list": []}]]}]}]
                if t["src"] == "list[dict]":
                    vals = [{"$list": [copy.deepcopy(nested)]}]
            if rng.random() < 0.08:
                # a mapping whose equality is order-sensitive: what comes back has the order that was sent
                t = {"k": "raw", "src": rng.choice(["collections.OrderedDict[str, int]", "typing.OrderedDict[str, int]", "list[collections.OrderedDict[str, int]]"])}
                od = {"$odict": [["zoe", 1], ["adam", 2], ["mia", rng.randint(0, 9)]]}
                vals = [od if not t["src"].startswith("list") else {"$list": [od]}]
            if "twin" in sw:
                # values that compare (and hash) equal to one already in the pool but are written
                # differently: Decimal exponents, equal instants at another offset, 0.0 / -0.0
                vals += [tw for tw in (hist.value_twin(rng, v, numeric=False) for v in list(vals)) if tw is not None]
            pool.append((t, vals))
        steps = []
        codecs = []
        n = rng.randint(1, 12 if tier == "quick" else 30)
        fk = [k for k in sw if k in ("clear", "clear_typing", "shrink")]
        while len(steps) < n:
            r = rng.random()
            if fk and steps and r < 0.2:
                steps.append(hist.fault_step(rng, rng.choice(fk), steps))
                continue
            t, vals = rng.choice(pool)
            if "reload" in sw and t["k"] == "ref" and not _is_bytes_t(t) and rng.random() < 0.5:
                # the hint is a typing.ForwardRef naming the class; the modules are executed again in between (a class
                # defined again under its old name): an equal reference now names the new class, for every entry point
                fr = {"k": "fref", "s": t["n"], "m": t["m"]}
                peer = rng.choice(PEERS)
                for rep in range(2):
                    if rep:
                        steps.append({"op": "reload"})
                        codecs = []
                    if rng.random() < 0.5:
                        steps.append({"op": "codec_get", "t": fr, "peer": peer, "mod": t["m"]})
                    steps.append({"op": "agree", "t": fr, "v": copy.deepcopy(rng.choice(vals)), "peer": peer, "mod": t["m"], "fresh_t": True})
                continue
            if "twin" in sw and rng.random() < 0.3:
                tw = hist.order_preserving_twins(rng, t)
                if tw:
                    t = rng.choice(tw)
            peer = rng.choice(PEERS)
            mod = rng.choice(mods)
            if r < 0.4:
                steps.append({"op": "codec_get", "t": t, "peer": peer, "mod": mod})
                if "exhaust_scan" in sw and rng.random() < 0.6:
                    steps[-1]["scan"] = True  # first requested from every stack depth at which the request cannot complete
                codecs.append((len(steps) - 1, core.jdump(t), peer, mod))
                continue
            step = {"op": "agree", "t": t, "v": copy.deepcopy(rng.choice(vals)), "peer": peer, "mod": mod}
            if rng.random() < 0.4:
                step["mutate_decoded"] = True  # the caller edits what it got back, then decodes the same payload again
            if rng.random() < 0.6:
                # the hint is spelled inline by the caller: a new annotation object for this call only,
                # gone afterwards (its address is free for the next hint)
                step["fresh_t"] = True
            mine = [c for c in codecs if c[1] == core.jdump(t) and c[2] == peer]
            if mine and rng.random() < 0.7:
                c = rng.choice(mine)
                step["ref"] = c[0]
                step["mod"] = c[3]
            if "peer_failure" in sw and rng.random() < sw["peer_failure"]:
                step["fail"] = {"side": rng.choice(["enc", "dec"]), "k": rng.randint(1, 2), "flavour": rng.choice(["runtime", "value"])}
            if "stack" in sw and rng.random() < 0.2:
                step["depth"] = rng.randint(1, 40)
            steps.append(step)
        return {"prop": self.ID, "seed": seed, "tier": tier, "world": world, "env": env, "steps": steps_with_ids(steps), "meta": {"swarm": sw}}

    # ------------------------------------------------------------------ execution
    def pre_run(self, sess):
        sess.codec_clears = {}

    def _peer_fns(self, name):
        from typelib.py import compat

        enc, dec = peers.pair(name)
        return (enc or compat.json.dumps), (dec or compat.json.loads), enc, dec

    def exec_op(self, sess, i, step):
        import typelib

        op = step["op"]
        if op == "reload":
            # the world's modules are executed again: new classes under the old names (codecs held from before
            # are for the old classes and are dropped; values are instances of the new ones from now on)
            sess.world.reload()
            sess.results.clear()
            sess.faults["reload"] += 1
            sess.fault_fired_before = True
            return Outcome(True, "reloaded")
        if op == "codec_get":
            T = sess.T(step)
            _, _, enc, dec = self._peer_fns(step["peer"])
            kw = {}
            if enc:
                kw["encoder"], kw["decoder"] = enc, dec
            if step.get("scan"):
                sess.scan_exhaust(step, typelib.codec, T, **kw)
            out = sess.guarded(sess.call, step, typelib.codec, T, **kw)
            if out.ok:
                sess.results[step["id"]] = out.value
                sess.codec_clears[step["id"]] = sess.stats["clears_fired"]
            return out
        if op != "agree":
            return None
        T = sess.T(step)
        v = sess.V(step["v"])
        sess.inputs[step["id"]] = v
        enc_f, dec_f, enc, dec = self._peer_fns(step["peer"])
        kw_e = {"encoder": enc} if enc else {}
        kw_d = {"decoder": dec} if dec else {}
        kw_c = {"encoder": enc, "decoder": dec} if enc else {}
        rec = {"viol": [], "stale": False}
        sess._c02 = rec
        handle = sess.results.get(step.get("ref")) if step.get("ref") is not None else None
        if handle is not None and sess.stats["clears_fired"] > sess.codec_clears.get(step["ref"], 0):
            rec["stale"] = True
            sess.probes["stale_codec_handle_used"] += 1

        # (a reference hint is written anew for every call: a reference object remembers what it was evaluated to,
        #  and an entry point must not depend on another one having evaluated the caller's object before)
        TT = (lambda: sess.T(step)) if (step["t"]["k"] == "fref" and step.get("fresh_t")) else (lambda: T)

        def get_codec():
            return handle if handle is not None else typelib.codec(TT(), **kw_c)

        # ---- peer failure (F11): the exception surfaces unchanged; the next identical call succeeds
        fail = step.get("fail") if not _is_bytes_t(step["t"]) else None  # bytes-like T never reaches a peer
        if fail:
            sess.faults["peer_failure"] += 1
            sess.fault_fired_before = True
            if fail["side"] == "enc":
                f = peers.Failing(enc_f, fail["k"], fail.get("flavour", "runtime"))
                outs = [sess.guarded(sess.call, step, typelib.encode, v, t=T, encoder=f) for _ in range(fail["k"] + 1)]
                bad = outs[fail["k"] - 1]
                ref = sess.guarded(sess.call, step, typelib.encode, v, t=T, encoder=enc_f)
                if ref.ok and (bad.ok or not isinstance(bad.exc, peers.PeerFailure)):
                    rec["viol"].append(("peer-failure-swallowed", {"side": "enc", "got": repr(bad)[:160]}))
                elif outs[-1].canon() != ref.canon():
                    # after the failure the same call must behave as it does with a healthy peer
                    rec["viol"].append(("peer-failure-poisoned", {"side": "enc", "after": repr(outs[-1])[:160], "healthy": repr(ref)[:160]}))

        # ---- encode through the three entry points
        e1 = sess.guarded(sess.call, step, typelib.encode, v, t=TT(), **kw_e)
        e2 = sess.guarded(sess.call, step, lambda: get_codec().encode(v))
        e3 = sess.guarded(sess.call, step, lambda: (_identity if _is_bytes_t(step["t"]) else enc_f)(typelib.marshal(v, t=TT())))
        m = sess.guarded(sess.call, step, typelib.marshal, v, t=TT())
        rec["enc"] = (e1, e2, e3)
        rec["marshal"] = m
        # the hint is optional: omitted, it is the value's own class
        if type(v).__module__ != "builtins" or isinstance(v, (bytes, bytearray, str, int, float, bool)):
            cls = type(v)
            o1 = sess.guarded(sess.call, step, typelib.encode, v, **kw_e)
            o2 = sess.guarded(sess.call, step, typelib.encode, v, t=cls, **kw_e)
            if o1.canon() != o2.canon():
                rec["viol"].append(("encode-without-hint-differs", {"side": "enc", "cls": cls.__name__, "without": repr(o1)[:140], "with_class": repr(o2)[:140]}))
        rec["T"] = T
        rec["v"] = v
        dec_out = None
        if e2.ok:
            b = e2.value
            if fail and fail["side"] == "dec":
                f = peers.Failing(dec_f, fail["k"], fail.get("flavour", "runtime"))
                outs = [sess.guarded(sess.call, step, typelib.decode, T, b, decoder=f) for _ in range(fail["k"] + 1)]
                bad = outs[fail["k"] - 1]
                if bad.ok or not isinstance(bad.exc, peers.PeerFailure):
                    rec["viol"].append(("peer-failure-swallowed", {"side": "dec", "got": repr(bad)[:160]}))
            d1 = sess.guarded(sess.call, step, typelib.decode, TT(), b, **kw_d)
            d2 = sess.guarded(sess.call, step, lambda: get_codec().decode(b))
            d3 = sess.guarded(sess.call, step, lambda: typelib.unmarshal(TT(), (_identity if _is_bytes_t(step["t"]) else dec_f)(b)))
            rec["dec"] = (d1, d2, d3)
            dec_out = d2
            if step["t"]["k"] == "fref" and step["t"].get("m"):
                # what the reference names *now* is what is built, whichever entry point is used
                cur = sess.world.obj(step["t"]["m"], step["t"]["s"])
                if isinstance(cur, type) and not issubclass(cur, dict):
                    for name, d in (("top", d1), ("codec", d2), ("compose", d3)):
                        if d.ok and type(d.value) is not cur and type(d.value).__qualname__ == cur.__qualname__:
                            rec["viol"].append(("decoded-instance-of-a-former-class", {"side": name, "cls": cur.__qualname__}))
            if step.get("mutate_decoded") and d2.ok and not _is_bytes_t(step["t"]):  # (a payload carried verbatim is the result itself)
                before = d2.canon()
                touched = model.deep_mutate(d2.value, core.rng_for(sess.seed, f"c02m{i}"))
                if touched:
                    sess.faults["mutate_result"] += 1
                    again = sess.guarded(sess.call, step, lambda: get_codec().decode(b))
                    if again.canon() != before:
                        rec["viol"].append(("decode-follows-edited-result", {"side": "dec", "first": repr(before)[:140], "again": repr(again.canon())[:140]}))
                    # (the edited object is no longer what was decoded: the round-trip comparison below uses the fresh one)
                    rec["dec"] = (d1, again, d3)
        u = "set" in sess.kinds_of(step["t"])
        summary = [o.canon(unordered=u) for o in (e1, e2, e3)] + ([o.canon(unordered=u) for o in rec.get("dec", ())])
        return Outcome(True, ["agree", summary])

    def unordered(self, sess, i, step):
        return None

    def nontrivial(self, sess, i, step, out, hit_delta):
        if step["op"] != "agree":
            return False
        return bool(getattr(sess, "_c02", {}).get("stale")) or sess.fault_fired_before or hit_delta > 0 or bool(step.get("fail"))

    def check(self, sess, i, step, out):
        if step["op"] == "codec_get":
            if not out.ok:
                sess.violation("codec-build-raised", i, {"t": model.tsrc(step["t"]), "exc": f"{type(out.exc).__name__}: {out.exc}"[:200]},
                               sig=f"codec-build-raised:{type(out.exc).__name__}")
            return
        if step["op"] != "agree":
            return
        rec = sess._c02
        tsrc = model.tsrc(step["t"])
        tag = ":stale" if rec["stale"] else ""
        for name, detail in rec["viol"]:
            sess.violation(name, i, dict(detail, t=tsrc), sig=f"{name}:{detail.get('side')}")
        e1, e2, e3 = rec["enc"]
        m = rec["marshal"]
        kinds = sess.kinds_of(step["t"])
        # agreement of the encode entry points (value or exception class)
        ce = [o.canon() for o in (e1, e2, e3)]
        if not (ce[0] == ce[1] == ce[2]):
            if not ("set" in kinds and all(o.ok for o in (e1, e2, e3)) and _same_json(e1.value, e2.value, e3.value, step["peer"])):
                sess.violation("encode-disagree", i, {"t": tsrc, "top": _s(ce[0]), "codec": _s(ce[1]), "compose": _s(ce[2])}, sig="encode-disagree" + tag)
                return
        if not e2.ok:
            return  # all three raised alike: nothing more to compare (validity of v is C01/C06's business)
        b = e2.value
        if _is_bytes_t(step["t"]):
            if not (isinstance(b, (bytes, bytearray)) and bytes(b) == bytes(rec["v"])):
                sess.violation("bytes-not-verbatim", i, {"t": tsrc, "got": repr(b)[:100]}, sig="bytes-not-verbatim:encode")
        else:
            if not isinstance(b, bytes):
                sess.violation("encoded-not-bytes", i, {"t": tsrc, "class": type(b).__name__}, sig="encoded-not-bytes")
                return
            try:
                parsed = json.loads(b[3:] if step["peer"] == "tag" else b)
            except ValueError as e:
                sess.violation("invalid-json", i, {"t": tsrc, "err": str(e)[:120], "bytes": repr(b[:80])}, sig="invalid-json")
                return
            if m.ok and _has_nonfinite(m.value):
                # a non-finite float can only reach the wire through the lossy first-acceptor rule
                # (float(Decimal('1E+400')) in a union): recorded under C01/first-acceptor-marshal
                sess.probes["nonfinite_float_in_marshal_output"] += 1
            elif m.ok and not _json_eq(parsed, m.value):
                sess.violation("json-differs-from-marshal", i, {"t": tsrc, "parsed": _s(model.canon(parsed)), "marshal": _s(model.canon(m.value))},
                               sig="json-differs-from-marshal")
        if "dec" not in rec:
            return
        d1, d2, d3 = rec["dec"]
        cd = [o.canon(unordered=True) if "set" in kinds else o.canon() for o in (d1, d2, d3)]
        if not (cd[0] == cd[1] == cd[2]):
            sess.violation("decode-disagree", i, {"t": tsrc, "top": _s(cd[0]), "codec": _s(cd[1]), "compose": _s(cd[2])}, sig="decode-disagree" + tag)
            return
        if _is_bytes_t(step["t"]):
            if not (d2.ok and bytes(d2.value) == bytes(rec["v"])):
                sess.violation("bytes-not-verbatim", i, {"t": tsrc, "got": repr(d2)[:100]}, sig="bytes-not-verbatim:decode")
            return
        if "union" in kinds or "lit" in {n["k"] for n in model.twalk(step["t"])} or ("lit" in kinds):
            return
        if not d2.ok:
            sess.violation("decode-raised", i, {"t": tsrc, "exc": f"{type(d2.exc).__name__}: {d2.exc}"[:200]}, sig=f"decode-raised:{type(d2.exc).__name__}{tag}")
        elif not model.same(d2.value, rec["v"]) and not _equal_instance_of_the_hint(step["t"], d2.value, rec["v"]):
            sess.violation("codec-roundtrip-mismatch", i, {"t": tsrc, "want": _s(model.canon(rec["v"])), "got": _s(model.canon(d2.value))},
                           sig="codec-roundtrip-mismatch" + tag)


def _identity(x):
    return x


def _equal_instance_of_the_hint(t, got, want) -> bool:
    """A scalar hint with a subclass instance as value (True for int): what comes back is an instance of
    the hinted class that equals the value - the statement's `equals v`."""
    cls = {"int": int, "float": float, "str": str}.get(t["k"])
    return cls is not None and type(got) is cls and isinstance(want, cls) and type(want) is not cls and got == want


def _is_bytes_t(t) -> bool:
    return t["k"] in ("bytes", "bytearray") or (t["k"] == "ref" and t["n"] in ("VwBytesS", "VwBytesN", "VwBytesA"))


def _has_nonfinite(x) -> bool:
    stack = [x]
    while stack:
        cur = stack.pop()
        if isinstance(cur, float) and (cur != cur or cur in (float("inf"), float("-inf"))):
            return True
        if isinstance(cur, dict):
            stack.extend(cur.values())
        elif isinstance(cur, (list, tuple)):
            stack.extend(cur)
    return False


def _json_eq(a, b) -> bool:
    """Equality of a parsed JSON document with marshal output (Python ==, but bool is not int)."""
    if isinstance(a, bool) or isinstance(b, bool):
        return isinstance(a, bool) and isinstance(b, bool) and a == b
    if isinstance(a, dict) and isinstance(b, dict):
        return a.keys() == b.keys() and all(_json_eq(a[k], b[k]) for k in a)
    if isinstance(a, list) and isinstance(b, list):
        return len(a) == len(b) and all(_json_eq(x, y) for x, y in zip(a, b))
    if isinstance(a, (int, float)) and isinstance(b, (int, float)):
        return a == b
    return type(a) is type(b) and a == b


def _same_json(b1, b2, b3, peer) -> bool:
    try:
        docs = [json.loads(bytes(b)[3:] if peer == "tag" else bytes(b)) for b in (b1, b2, b3)]
    except Exception:
        return False
    c = [model.canon(d, unordered=True) for d in docs]
    return c[0] == c[1] == c[2]


def _s(x, n=220):
    s = core.jdump(x) if not isinstance(x, str) else x
    return s if len(s) <= n else s[:n] + "..."


PROP = C02()
