"""C04 - scalar values survive their text and numeric wire forms exactly."""

from __future__ import annotations

import copy
import datetime
import decimal
import fractions

from .. import core, gen, hist, iso, model
from ..session import Outcome
from . import PropBase, steps_with_ids

KINDS = ["int", "float", "dec", "frac", "uuid", "ppath", "purepath", "path", "date", "dt", "time", "td", "enum"]
TEMPORAL = ("date", "dt", "time", "td")
FAULTS = ("twin", "shrink", "clear", "zone", "clock", "cross_target", "buffer_reuse")
EPOCH_MIN, EPOCH_MAX = -62135596800, 253402300799


def _text(v) -> str:
    """Python's own printer."""
    if isinstance(v, float):
        return repr(v)
    if isinstance(v, (datetime.date, datetime.time)):
        return v.isoformat()
    return str(v)


class C04(PropBase):
    ID = "C04"
    REPLICAS = 2
    QUICK_RUNS = 3000
    THOROUGH_RUNS = 150000
    QUICK_BUDGET_S = 60
    THOROUGH_BUDGET_S = 600
    FAULT_KINDS = FAULTS
    RULE = (
        "A case is one scalar conversion of a seeded history: parse Python's own text of v in a text carrier, emit and re-read "
        "with the independent ISO-8601 reader, number -> temporal (epoch seconds in UTC), temporal -> number, temporal -> str/bytes. "
        "Non-trivial: it follows an equal-but-differently-represented twin, an LRU eviction (capacity 1/2/8), a cache clear, or a "
        "zone switch / clock jump (also inside a parse/format pair); distinct = distinct (operation digest, pre-state signature)."
        ' Temporal inputs of str/bytes targets include instances of user subclasses of the datetime members and pendulum instances.'
    )
    ASSUMPTIONS = ["time -> number and numeric strings into temporals are excluded as ambiguous, as in the statement",
                   "expected values come from Python's own printers/constructors (str, repr, isoformat, fromtimestamp(n, UTC), timestamp, total_seconds)"]

    # ------------------------------------------------------------------ generation
    def gen(self, seed, tier):
        rng = core.rng_for(seed, "gen")
        cfg = gen.Cfg.for_tier(tier)
        sw = hist.swarm(rng, FAULTS)
        enums = []
        for i in range(2):
            enums.append(gen.gen_enum(rng, f"VwE{i}"))
        world = {"modules": [{"name": "vw0", "future": False, "decls": enums}]}
        env = self.base_env(rng, fault_free=not sw)
        steps = []
        n = rng.randint(1, 12 if tier == "quick" else 40)
        focus = rng.sample(KINDS, rng.randint(1, 4))  # swarm: few kinds per run, so that memos see related keys
        while len(steps) < n:
            if steps and sw:
                for k in ("shrink", "clear", "zone", "clock"):
                    if k in sw and rng.random() < sw[k] * 0.5:
                        steps.append(hist.fault_step(rng, k, steps))
            k = rng.choice(focus)
            step = self._gen_op(rng, k, cfg, enums, sw)
            if step is None:
                continue
            if "twin" in sw and rng.random() < 0.5 and "v" in step:
                tw = self._twin(rng, step)
                if tw is not None:
                    steps.append(tw)
            if isinstance(step.get("v"), dict) and "$dt" in step["v"] and step["op"] in ("s_parse", "s_emit") and rng.random() < 0.3:
                # a sibling with the same wall-clock fields whose offset lies exactly 24 h away
                # (+14:00 / -10:00, +13:00 / -11:00, ...): another instant, another text, other tzinfo
                sib = copy.deepcopy(step)
                off = sib["v"]["$dt"][7]
                if off:
                    off2 = off - 1440 if off > 0 else off + 1440
                    sib["v"]["$dt"][7] = off2
                    steps.append(sib)
                elif off == 0:
                    sib["v"]["$dt"][7] = rng.choice([840, 780, 720])
                    steps.append(sib)
                    sib2 = copy.deepcopy(sib)
                    sib2["v"]["$dt"][7] -= 1440
                    steps.append(sib2)
            if "cross_target" in sw and step["op"] == "s_parse" and step["k"] in TEMPORAL and rng.random() < 0.6:
                # F5-like: the very same text is first offered to *another* temporal target (a union
                # trying its members in order does exactly this); whatever that call does, the real
                # parse that follows must still succeed
                other = rng.choice([x for x in TEMPORAL if x != step["k"]])
                steps.append(dict(copy.deepcopy(step), op="s_cross", other=other, mid=[]))
            steps.append(step)
        return {"prop": self.ID, "seed": seed, "tier": tier, "world": world, "env": env, "steps": steps_with_ids(steps),
                "meta": {"swarm": sw, "focus": focus}}

    def _gen_op(self, rng, k, cfg, enums, sw):
        if k == "enum":
            e = rng.choice(enums)
            mem = rng.choice(e["members"])
            step = {"op": "s_parse", "k": "enum", "enum": e["n"], "v": {"$enum": [f"vw0.{e['n']}", mem[0]]},
                    "carrier": rng.choice(hist.CARRIERS + ("rbuf",) + hist.WINDOW_CARRIERS) if isinstance(mem[1], str) else "value"}
            if rng.random() < 0.4:
                step["op"] = "s_emit"
            elif rng.random() < 0.5:
                # F11, earlier in the same process: an input the routine rightly refuses (or one meant for
                # another type); what follows must be read exactly as in a process that never saw it
                step["prime"] = rng.choice(["no-such-member", "", "[", {"$list": [1]}, 12345, "None "])
            return step
        v = gen.gen_scalar_value(rng, k, cfg)
        r = rng.random()
        if k in TEMPORAL:
            op = core.weighted(rng, [(5, "s_parse"), (4, "s_emit"), (3, "s_num2temp"), (2 if k != "time" else 0, "s_temp2num"), (2, "s_temp2text"),
                                     (2 if k == "time" else 0, "s_time_inverse")])
        else:
            op = "s_parse" if r < 0.65 else "s_emit"
        step = {"op": op, "k": k, "v": v}
        if op == "s_parse":
            # ("rbuf": the caller's receive buffer - one bytearray, overwritten in place for every message)
            # (and windows onto a larger buffer: one field of a received record)
            step["carrier"] = rng.choice(hist.CARRIERS + ("rbuf", "rbuf") + hist.WINDOW_CARRIERS)
            mid = []
            for f in ("zone", "clock", "clear", "shrink"):
                if f in sw and rng.random() < sw[f]:
                    mid.append(hist.fault_step(rng, f, []))
            if mid:
                step["mid"] = mid
        elif op == "s_num2temp":
            r2 = rng.random()
            if k == "td":
                n = rng.choice([0, 1, -1, 59, 60, 86400, 604800, -86400, 10**9, rng.randint(-10**7, 10**7)])
            elif r2 < 0.4:
                n = rng.choice([0, 1, -1, 86399, 86400, 946684799, 2147483647, 2147483648, 1709251199, EPOCH_MIN, EPOCH_MAX, -86400])
            else:
                n = rng.randint(-4 * 10**9, 8 * 10**9)
            if rng.random() < 0.4:
                frac = rng.choice([0.5, 0.25, 0.999999, 0.000001, 0.1])
                n = {"$f": repr(float(n) + frac)} if abs(n) < 2**40 else n
            step = {"op": op, "k": k, "n": n}
        elif op == "s_temp2num":
            step["target"] = rng.choice(["int", "float"])
        elif op == "s_temp2text":
            step["target"] = rng.choice(["str", "bytes"])
            rr = rng.random()
            if rr < 0.25:
                # the value is an instance of a subclass of the datetime member (a user's own, or the parser's)
                step["v"] = {"$tsub": v}
            elif rr < 0.4:
                # (the parser's duration class keeps float-derived fields of its own: exact below 2**53 microseconds only)
                far = k == "td" and abs(v["$td"][0]) > 100_000
                step["v"] = {"$tsub": v} if far else {"$pend": [k, v]}
        return step

    def _twin(self, rng, step):
        v = step["v"]
        tw = None
        if isinstance(v, dict) and "$dt" in v:
            tw = hist.value_twin(rng, v)
        elif isinstance(v, dict) and "$t" in v:
            H, M, S, us, off = v["$t"][:5]
            if off is not None:
                new_off = rng.choice([o for o in (0, 330, -300, 60, 765) if o != off])
                total = (H * 60 + M) + (new_off - off)
                if 0 <= total < 1440:
                    tw = {"$t": [total // 60, total % 60, S, us, new_off]}
        elif isinstance(v, dict) and "$dec" in v:
            tw = hist.value_twin(rng, v)
        elif isinstance(v, int) and not isinstance(v, bool):
            tw = {"$f": repr(float(v))} if abs(v) < 2**53 else None
            if tw is not None:
                return dict(copy.deepcopy(step), k="float", v=tw, twin=True) if step["op"] in ("s_parse", "s_emit") else None
        if tw is None:
            return None
        out = copy.deepcopy(step)
        out["v"] = tw
        out["twin"] = True
        return out

    # ------------------------------------------------------------------ execution
    def _T(self, sess, step, k=None):
        k = k or step["k"]
        if k == "enum":
            return sess.world.obj("vw0", step["enum"])
        return sess.world.realize({"k": k})

    def exec_op(self, sess, i, step):
        import typelib

        op = step["op"]
        if not op.startswith("s_"):
            return None
        if step.get("twin"):
            sess.faults["twin"] += 1
            sess.fault_fired_before = True
        if op == "s_parse":
            v = sess.V(step["v"])
            T = self._T(sess, step)
            if step["k"] == "td":
                m = sess.guarded(sess.call, step, typelib.marshal, v, t=T)
                if not m.ok or not isinstance(m.value, str):
                    sess._c04 = ("emit-failed", v, m)
                    return m
                text = m.value
            elif step["k"] == "enum":
                text = v.value
                if "prime" in step:
                    refused = sess.guarded(sess.call, step, typelib.unmarshal, T, sess.V(step["prime"]))
                    if not refused.ok:
                        sess.faults["refused_before"] += 1
                        sess.fault_fired_before = True
            else:
                text = _text(v)
            for f in step.get("mid", ()):
                sess.exec_fault(i, f)
            car = step.get("carrier", "str")
            if car == "rbuf" and isinstance(text, str):
                x = sess.__dict__.setdefault("_c04_rbuf", bytearray())
                if x:
                    sess.faults["buffer_reuse"] += 1
                    sess.fault_fired_before = True
                x[:] = text.encode("utf-8", "surrogatepass")
            else:
                x = text if car in ("value", "rbuf") or not isinstance(text, str) else sess.V(hist.carry(text, car))
            out = sess.guarded(sess.call, step, typelib.unmarshal, T, x)
            sess._c04 = ("parse", v, text)
            return out
        if op == "s_cross":
            v = sess.V(step["v"])
            T = self._T(sess, step)
            if step["k"] == "td":
                m = sess.guarded(sess.call, step, typelib.marshal, v, t=T)
                text = m.value if m.ok else "PT1S"
            else:
                text = _text(v)
            car = step.get("carrier", "str")
            car = "bytearray" if car == "rbuf" else car
            x = sess.V(hist.carry(text, car)) if isinstance(text, str) else text
            sess.faults["cross_target"] += 1
            sess.fault_fired_before = True
            sess._c04 = ("cross", v, text)
            out = sess.guarded(sess.call, step, typelib.unmarshal, self._T(sess, step, step["other"]), x)
            return Outcome(True, "accepted" if out.ok else "rejected")
        if op == "s_emit":
            v = sess.V(step["v"])
            out = sess.guarded(sess.call, step, typelib.marshal, v, t=self._T(sess, step))
            sess._c04 = ("emit", v, None)
            return out
        if op == "s_num2temp":
            n = sess.V(step["n"])
            out = sess.guarded(sess.call, step, typelib.unmarshal, self._T(sess, step), n)
            sess._c04 = ("num2temp", n, None)
            return out
        if op == "s_temp2num":
            v = sess.V(step["v"])
            out = sess.guarded(sess.call, step, typelib.unmarshal, {"int": int, "float": float}[step["target"]], v)
            sess._c04 = ("temp2num", v, None)
            return out
        if op == "s_temp2text":
            v = sess.V(step["v"])
            out = sess.guarded(sess.call, step, typelib.unmarshal, {"str": str, "bytes": bytes}[step["target"]], v)
            sess._c04 = ("temp2text", v, None)
            return out
        if op == "s_time_inverse":
            # a time of day has no epoch second of its own (the library places it on the current day,
            # read from the clock): what is pinned is that the numeric reading is the inverse of
            # number -> time, on whichever day the clock says it is
            v = sess.V(step["v"])
            num = sess.guarded(sess.call, step, typelib.unmarshal, float, v)
            back = sess.guarded(sess.call, step, typelib.unmarshal, datetime.time, num.value) if num.ok else None
            sess._c04 = ("time_inverse", v, (num, back))
            return Outcome(True, "inverse" if (back is not None and back.ok) else "raised")
        return None

    def comparable(self, sess, i, step):
        return True  # every C04 conversion has one right answer in every environment

    def check(self, sess, i, step, out):
        op = step["op"]
        if not op.startswith("s_"):
            return
        what, v, aux = sess._c04
        if what == "cross":
            return
        k = step["k"]
        base = f"{op}:{k}"
        if what == "emit-failed":
            sess.violation("emit", i, {"v": _s(model.canon(v)), "got": repr(aux)[:200]}, sig=f"emit-failed:{k}:{_vclass(k, v)}")
            return
        if op == "s_parse":
            if not out.ok:
                sess.violation("parse-raised", i, {"text": repr(aux)[:120], "carrier": step.get("carrier"), "exc": f"{type(out.exc).__name__}: {out.exc}"[:200]},
                               sig=f"parse-raised:{k}:{_vclass(k, v)}")
            elif not model.same(out.value, v):
                sess.violation("parse-mismatch", i, {"text": repr(aux)[:120], "carrier": step.get("carrier"), "want": _s(model.canon(v)), "got": _s(model.canon(out.value))},
                               sig=f"parse-mismatch:{k}:{_vclass(k, v)}:{_diffclass(v, out.value)}")
            return
        if op == "s_emit":
            if not out.ok:
                sess.violation("emit", i, {"v": _s(model.canon(v)), "exc": f"{type(out.exc).__name__}: {out.exc}"[:200]}, sig=f"emit-raised:{k}:{_vclass(k, v)}")
                return
            got = out.value
            if k == "td":
                try:
                    us = iso.parse_duration_us(got) if isinstance(got, str) else None
                except iso.IsoError as e:
                    sess.violation("emit", i, {"v": _s(model.canon(v)), "text": repr(got), "reader": str(e)}, sig=f"emit-malformed:td:{_vclass(k, v)}")
                    return
                if us != iso.td_us(v):
                    sess.violation("emit", i, {"v": _s(model.canon(v)), "text": repr(got), "reader_us": us, "want_us": iso.td_us(v)},
                                   sig=f"emit-wrong-meaning:td:{_vclass(k, v)}")
                return
            if k == "enum":
                want = v.value
            elif k in ("int", "float"):
                want = v
            else:
                want = _text(v)
            if type(got) is not type(want) or got != want or (isinstance(got, float) and repr(got) != repr(want)):
                sess.violation("emit", i, {"v": _s(model.canon(v)), "got": repr(got)[:120], "want": repr(want)[:120]}, sig=f"emit-mismatch:{k}:{_vclass(k, v)}")
                return
            if k in ("date", "dt", "time"):
                try:
                    back = {"date": iso.parse_date, "dt": iso.parse_datetime, "time": iso.parse_time}[k](got)
                except iso.IsoError as e:
                    sess.violation("emit", i, {"text": got, "reader": str(e)}, sig=f"emit-malformed:{k}:{_vclass(k, v)}")
                    return
                if not model.same(back, v):
                    sess.violation("emit", i, {"text": got, "reader": _s(model.canon(back)), "want": _s(model.canon(v))}, sig=f"emit-wrong-meaning:{k}:{_vclass(k, v)}")
            return
        if op == "s_num2temp":
            n = v
            try:
                if k == "td":
                    want = datetime.timedelta(seconds=n)
                else:
                    dt = datetime.datetime.fromtimestamp(n, tz=datetime.timezone.utc)
                    want = {"dt": dt, "date": dt.date(), "time": dt.timetz()}[k]
            except (OverflowError, ValueError, OSError):
                return  # outside the platform range: not in the quantifier
            if not out.ok:
                sess.violation("num2temp", i, {"n": repr(n), "exc": f"{type(out.exc).__name__}: {out.exc}"[:200]}, sig=f"num2temp-raised:{k}:{type(n).__name__}")
            elif not model.same(out.value, want):
                sess.violation("num2temp", i, {"n": repr(n), "got": _s(model.canon(out.value)), "want": _s(model.canon(want))},
                               sig=f"num2temp-mismatch:{k}:{type(n).__name__}:{_diffclass(want, out.value)}")
            return
        if op == "s_temp2num":
            if isinstance(v, datetime.datetime):
                f = v.timestamp()
            elif isinstance(v, datetime.date):
                f = datetime.datetime(v.year, v.month, v.day, tzinfo=datetime.timezone.utc).timestamp()
            else:
                f = v.total_seconds()
            want = f if step["target"] == "float" else int(f)
            if not out.ok:
                sess.violation("temp2num", i, {"v": _s(model.canon(v)), "exc": f"{type(out.exc).__name__}: {out.exc}"[:200]}, sig=f"temp2num-raised:{k}:{step['target']}")
            elif type(out.value) is not type(want) or out.value != want:
                sess.violation("temp2num", i, {"v": _s(model.canon(v)), "got": repr(out.value), "want": repr(want)}, sig=f"temp2num-mismatch:{k}:{step['target']}")
            return
        if op == "s_time_inverse":
            num, back = sess._c04[2]
            if not num.ok or back is None or not back.ok:
                bad = num if not num.ok else back
                sess.violation("temp2num", i, {"v": _s(model.canon(v)), "exc": f"{type(bad.exc).__name__}: {bad.exc}"[:200]}, sig="time-inverse-raised")
                return

            def day_us(t):
                off = t.utcoffset()
                us = ((t.hour * 60 + t.minute) * 60 + t.second) * 10**6 + t.microsecond - int(off.total_seconds() * 10**6)
                return us % (86400 * 10**6)

            import math

            tol = max(1, int(math.ulp(num.value) * 10**6) + 1)
            if back.value.utcoffset() is None:
                sess.violation("temp2num", i, {"v": _s(model.canon(v)), "back": repr(back.value)}, sig="time-inverse-naive")
                return
            d = abs(day_us(back.value) - day_us(v))
            d = min(d, 86400 * 10**6 - d)
            if d > tol:
                sess.violation("temp2num", i, {"v": _s(model.canon(v)), "number": repr(num.value), "back": _s(model.canon(back.value)), "off_by_us": d},
                               sig="time-inverse-mismatch")
            return
        if op == "s_temp2text":
            if k == "td":
                if not out.ok:
                    sess.violation("temp2text", i, {"exc": f"{type(out.exc).__name__}"}, sig=f"temp2text-raised:{k}:{_vclass(k, v)}")
                    return
                txt = out.value.decode() if isinstance(out.value, bytes) else out.value
                try:
                    ok = isinstance(txt, str) and iso.parse_duration_us(txt) == iso.td_us(v)
                except iso.IsoError:
                    ok = False
                if not ok or type(out.value) is not {"str": str, "bytes": bytes}[step["target"]]:
                    sess.violation("temp2text", i, {"v": _s(model.canon(v)), "got": repr(out.value)[:100]}, sig=f"temp2text-mismatch:{k}:{_vclass(k, v)}")
                return
            want = v.isoformat()
            if step["target"] == "bytes":
                want = want.encode()
            if not out.ok:
                sess.violation("temp2text", i, {"exc": f"{type(out.exc).__name__}"}, sig=f"temp2text-raised:{k}")
            elif type(out.value) is not type(want) or out.value != want:
                sess.violation("temp2text", i, {"got": repr(out.value)[:100], "want": repr(want)}, sig=f"temp2text-mismatch:{k}:{step['target']}")


def _vclass(k, v) -> str:
    """Coarse value class for signatures (which part of the range a failure lives in)."""
    if k == "td":
        us = iso.td_us(v)
        if us < 0:
            return "negative"
        if us == 0:
            return "zero"
        if abs(v.days) >= 7:
            return "weeks"
        return "positive-under-7d"
    if k == "time":
        off = v.utcoffset()
        return "utc" if off == datetime.timedelta(0) else "offset"
    if k == "dt":
        if v.year < 1000:
            return "year<1000"
        return "utc" if v.utcoffset() == datetime.timedelta(0) else "offset"
    if k == "date":
        return "year<1000" if v.year < 1000 else "common"
    if k in ("ppath", "purepath", "path"):
        s = str(v)
        return "reads-as-literal" if _reads_as_literal(s) else "plain"
    if k == "enum":
        val = v.value
        if isinstance(val, str):
            return "str-value-reads-as-literal" if _reads_as_literal(val) else "str-value"
        return type(val).__name__ + "-value"
    if k == "dec":
        return "exp" if "E" in str(v) else "plain"
    if k == "int":
        return "big" if abs(v) >= 2**63 else "small"
    if k == "float":
        return "float"
    return "any"


def _reads_as_literal(s: str) -> bool:
    import ast
    import json

    try:
        json.loads(s)
        return True
    except ValueError:
        pass
    try:
        ast.literal_eval(s)
        return True
    except Exception:
        return False


def _diffclass(want, got) -> str:
    if type(want) is not type(got):
        return f"class:{type(got).__name__}"
    if isinstance(want, (datetime.datetime, datetime.time)):
        if want.utcoffset() != got.utcoffset():
            return "offset"
        if want.microsecond != got.microsecond:
            return "microseconds"
    return "value"


def _s(x, n=240):
    s = core.jdump(x) if not isinstance(x, str) else x
    return s if len(s) <= n else s[:n] + "..."


PROP = C04()
