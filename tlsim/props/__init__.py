"""Registry of property modules and the shared base class."""

from __future__ import annotations

import importlib

from .. import core, seams

CLAIMED = ("C01", "C02", "C03", "C04", "C06", "C07", "C08", "C09", "C11", "C12",
           "C14", "C15", "C16", "C17", "C18", "C19")

_cache: dict = {}


def get(pid: str):
    if pid not in _cache:
        mod = importlib.import_module(f"tlsim.props.{pid.lower()}")
        _cache[pid] = mod.PROP
    return _cache[pid]


def available():
    out = []
    for pid in CLAIMED:
        try:
            get(pid)
            out.append(pid)
        except ModuleNotFoundError:
            pass
    return out


class PropBase:
    ID = "C00"
    NEEDS_COLD = False
    REPLICAS = 1  # >1: the same history is also run under other hash seed / zone / clock
    RULE = ""
    ASSUMPTIONS: list = []
    STEP_TIMEOUT_S = 30.0
    RUN_TIMEOUT_S = {"quick": 60.0, "thorough": 180.0}
    QUICK_RUNS = 2000
    THOROUGH_RUNS = 60000
    QUICK_BUDGET_S = 60
    THOROUGH_BUDGET_S = 600
    FAULT_KINDS: tuple = ()

    # ---- generation ------------------------------------------------------------
    def gen(self, seed: int, tier: str) -> dict:
        raise NotImplementedError

    def base_env(self, rng, *, fault_free: bool = False) -> dict:
        if fault_free or rng.random() < 0.5:
            tz = "UTC"
        else:
            tz = rng.choice(seams.ZONES)
        r = rng.random()
        if r < 0.4:
            clock = [1_700_000_000 + rng.randint(0, 86400 * 365), rng.randint(0, 999999)]
        elif r < 0.8:
            clock = [rng.choice(seams.CLOCK_POINTS), rng.choice([0, 999999, 500000])]
        else:
            clock = [rng.randint(0, 7258118400), rng.randint(0, 999999)]
        return {"tz": tz, "clock": clock, "reclimit": 1000}

    def apply_replica(self, history: dict, replica: int) -> dict:
        """Replica r > 0: same history, other initial zone and clock (the hash seed
        differs because the replica runs in another template)."""
        if replica:
            rng = core.rng_for(history["seed"], f"replica{replica}")
            zones = [z for z in seams.ZONES if z != history["env"]["tz"]]
            history["env"] = dict(history["env"])
            history["env"]["tz"] = rng.choice(zones)
            history["env"]["clock"] = [rng.choice(seams.CLOCK_POINTS) + rng.randint(0, 86399), rng.randint(0, 999999)]
            history["replica"] = replica
        return history

    # ---- execution -------------------------------------------------------------
    def exec_op(self, sess, i: int, step: dict):
        return None

    def pre_run(self, sess):
        pass

    def check(self, sess, i: int, step: dict, out):
        pass

    def finish(self, sess):
        pass

    def nontrivial(self, sess, i, step, out, hit_delta):
        return None  # default rule: fault fired earlier or a memo written earlier was read

    def unordered(self, sess, i, step):
        """Is the outcome order of this step legitimately hash-seed dependent?  None = decide
        from the value ASTs (an unordered collection of >= 2 elements, a set-typed position)."""
        return None

    def pre_op(self, sess, i: int, step: dict):
        """Runs before an operation step (generic or own): fault injection tied to the step."""
        sess.low = None
        if step.get("scan") and step["op"] in ("build", "marshal", "unmarshal", "roundtrip"):
            r = sess.scan_step(step)
            from ..session import _has_tag

            third_party_state = any(_has_tag(step[k], "$pend") for k in ("v", "x") if k in step)  # pendulum's lazy attributes (DESIGN 10.1)
            if r is not None and r[0] and r[1] is not None and step["op"] in ("marshal", "unmarshal") and not third_party_state:
                sess.low = r[1]  # the first attempt that was not cut short: made with next to no stack left

    def comparable(self, sess, i, step) -> bool:
        """May this step be compared between replicas in different environments?  Not if its
        input is documented as clock- or zone-relative (time-only text, aware times that a lenient
        member reads through "today", naive temporals)."""
        from .. import hist

        for k in ("x", "v", "s"):
            if k in step and hist.env_relative_value(step[k]):
                return False
        return True

    def run(self, sess):
        h = sess.history
        sess.apply_env(h["env"])
        if self.NEEDS_COLD and not sess.is_cold:
            sess.cold_start()
        self.pre_run(sess)
        try:
            for i, step in enumerate(h["steps"]):
                pre_sig = sess.state_signature()
                hits0 = sess.hits_total()
                if step["op"] in sess.FAULT_OPS:
                    sess.exec_fault(i, step)
                    sess.log_step(i, step, None, pre_sig=pre_sig, comparable=False)
                    continue
                self.pre_op(sess, i, step)
                out = sess.exec_op(i, step)
                if out is None:
                    out = self.exec_op(sess, i, step)
                if out is None:
                    raise RuntimeError(f"harness: unknown op {step['op']!r}")
                hit_delta = sess.hits_total() - hits0
                sess.outcomes[step.get("id", i)] = out
                sess.log_step(i, step, out, pre_sig=pre_sig, hit_delta=hit_delta,
                              nontrivial=self.nontrivial(sess, i, step, out, hit_delta),
                              comparable=self.comparable(sess, i, step), unordered=self.unordered(sess, i, step))
                low = getattr(sess, "low", None)
                if low is not None and not (isinstance(out.exc, RecursionError) if not out.ok else False):
                    # with next to no stack left a call either dies of RecursionError or gives what it
                    # gives at any other depth - never another member's answer, never another error
                    a, b = low.canon(unordered=True), out.canon(unordered=True)
                    if a != b:
                        sess.violation("outcome-depends-on-stack-depth", i, {"op": step["op"], "near_the_limit": core.jdump(a)[:200], "normal_depth": core.jdump(b)[:200]},
                                       sig=f"depth-dependent:{step['op']}:{'raise-vs-ok' if low.ok != out.ok else 'value'}")
                sess.low = None
                self.check(sess, i, step, out)
            self.finish(sess)
        finally:
            sess.cold_stop()

    # ---- classification of violations -----------------------------------------------
    def classify(self, history: dict, violation: dict) -> str:
        """Signature of a violation: a narrow named predicate over the failing history.
        The default never matches a known finding."""
        return violation.get("sig") or f"unclassified:{violation['oracle']}"


def steps_with_ids(steps):
    for n, s in enumerate(steps):
        s.setdefault("id", n)
    return steps
