"""C17 - type predicates agree with Python's own type semantics."""

from __future__ import annotations

import collections
import collections.abc
import dataclasses
import datetime
import decimal
import enum
import fractions
import inspect
import numbers
import pathlib
import re
import types
import typing
import uuid

from .. import core, hist, model
from ..session import Outcome
from . import PropBase, steps_with_ids

FAULTS = ("clear", "clear_typing", "twin_adjacent", "exhaust_scan")

WORLD_SRC = '''
import ipaddress, numbers, types, sqlite3, functools
class VwE(enum.Enum):
    A = 1
class VwIE(enum.IntEnum):
    A = 1
class VwSE(str, enum.Enum):
    A = "a"
@dataclasses.dataclass
class VwDC:
    a: int = 0
@dataclasses.dataclass(frozen=True)
class VwFDC:
    a: int = 0
class VwSubDC(VwDC):
    pass
class VwNT(typing.NamedTuple):
    a: int = 0
class VwTD(typing.TypedDict):
    a: int
class VwPlain:
    a: int
    def __init__(self, a: int = 0):
        self.a = a
    @property
    def prop(self):
        return 1
    @functools.cached_property
    def cprop(self):
        return 2
    def meth(self):
        return 3
    @classmethod
    def from_dict(cls, d):
        return cls(**d)
class VwLazyProp(property):
    """a user subclass of property (lazy/abstract property helpers are written like this)"""
class VwTimedCProp(functools.cached_property):
    pass
class VwPropHost:
    @VwLazyProp
    def lazy(self):
        return 1
    @VwTimedCProp
    def timed(self):
        return 2
    @abc.abstractproperty
    def abstract(self):
        return 3
class VwNoHints:
    def __init__(self, a=0):
        self.a = a
class VwStrSub(str):
    pass
class VwListSub(list):
    pass
class VwDictSub(dict):
    pass
class VwGen(typing.Generic[typing.TypeVar("VwT0")]):
    pass
class VwProto(typing.Protocol):
    def area(self) -> float: ...
class VwGenOuter:
    class VwGenInner(typing.Generic[typing.TypeVar("VwT1")]):
        pass
class VwUnhashable:
    __hash__ = None
class VwAbstract(abc.ABC):
    @abc.abstractmethod
    def f(self): ...
VwT = typing.TypeVar("VwT")
VwTB = typing.TypeVar("VwTB", bound=int)
VwTC = typing.TypeVar("VwTC", int, str)
VwNInt = typing.NewType("VwNInt", int)
VwNStr = typing.NewType("VwNStr", str)
VwNDate = typing.NewType("VwNDate", datetime.date)
VwNList = typing.NewType("VwNList", list)
VwNDict = typing.NewType("VwNDict", dict)
VwNNInt = typing.NewType("VwNNInt", VwNInt)
VwNDC = typing.NewType("VwNDC", VwDC)
VwNPath = typing.NewType("VwNPath", pathlib.Path)
VwNBytes = typing.NewType("VwNBytes", bytes)
VwNFloat = typing.NewType("VwNFloat", float)
VwAInt = typing.TypeAliasType("VwAInt", int)
VwAList = typing.TypeAliasType("VwAList", list[int])
VwADict = typing.TypeAliasType("VwADict", dict[str, int])
VwADate = typing.TypeAliasType("VwADate", datetime.datetime)
VwAOpt = typing.TypeAliasType("VwAOpt", typing.Optional[int])
VwAStr = typing.TypeAliasType("VwAStr", "VwDC")
def vw_func(a: int, b: str = "x") -> int:
    return a
# user classes whose names coincide with typing's special forms (an AST node, a token kind, ...)
@dataclasses.dataclass
class Literal:
    value: int = 0
class Final(enum.Enum):
    A = 1
class Union:
    pass
class Optional:
    pass
class ClassVar:
    pass
import typing_extensions
class VwTDX(typing_extensions.TypedDict):   # the back-ported TypedDict (its own metaclass on this interpreter)
    title: str
    year: int
class VwTDXChild(VwTDX, total=False):
    rating: float
class VwRecord:
    """dict-backed record: unknown attributes are looked up in the data (KeyError when absent)"""
    def __init__(self, **data):
        self.__dict__["_data"] = data
    def __getattr__(self, key):
        return self._data[key]
class VwNamespace:
    """auto-vivifying namespace / lazy proxy: answers every attribute name"""
    def __getattr__(self, key):
        if key.startswith("__") and key.endswith("__") and key not in ("__get__", "__set__", "__delete__", "__set_name__"):
            raise AttributeError(key)
        child = VwNamespace()
        self.__dict__[key] = child
        return child
'''
WORLD = {"modules": [{"name": "vw0", "future": False, "decls": [{"d": "raw", "n": "VwE", "src": "import abc\n" + WORLD_SRC}]}]}

# ------------------------------------------------------------------------------------------------
# catalogue: (expression, tags, spelling-group)
# ------------------------------------------------------------------------------------------------
CLASSY = [
    "int", "bool", "float", "str", "bytes", "bytearray", "memoryview", "list", "set", "frozenset", "tuple", "dict", "type(None)", "complex",
    "datetime.date", "datetime.datetime", "datetime.time", "datetime.timedelta", "decimal.Decimal", "fractions.Fraction", "uuid.UUID",
    "pathlib.Path", "pathlib.PurePath", "pathlib.PurePosixPath", "re.Pattern", "collections.deque", "collections.defaultdict",
    "collections.OrderedDict", "collections.Counter", "collections.ChainMap", "types.MappingProxyType", "ipaddress.IPv4Address",
    "ipaddress.IPv6Address", "numbers.Number", "numbers.Integral", "range",
    "collections.abc.Sequence", "collections.abc.MutableSequence", "collections.abc.Collection", "collections.abc.Iterable",
    "collections.abc.Iterator", "collections.abc.Generator", "collections.abc.Mapping", "collections.abc.MutableMapping",
    "collections.abc.Set", "collections.abc.MutableSet", "collections.abc.Hashable", "collections.abc.Sized", "collections.abc.Container",
    "collections.abc.Reversible", "collections.abc.KeysView", "collections.abc.ValuesView", "collections.abc.ItemsView",
    "typing.Sequence", "typing.MutableSequence", "typing.Collection", "typing.Iterable", "typing.Iterator", "typing.Mapping",
    "typing.MutableMapping", "typing.AbstractSet", "typing.MutableSet", "typing.List", "typing.Dict", "typing.Set", "typing.FrozenSet",
    "typing.Tuple", "typing.Deque", "typing.DefaultDict", "typing.OrderedDict", "typing.Counter", "typing.ChainMap", "typing.Hashable",
    "list[int]", "typing.List[int]", "set[str]", "typing.Set[str]", "frozenset[int]", "typing.FrozenSet[int]", "dict[str, int]",
    "typing.Dict[str, int]", "tuple[int, ...]", "typing.Tuple[int, ...]", "tuple[int, str]", "typing.Tuple[int, str]", "tuple[()]", "typing.Tuple[()]",
    "collections.deque[int]", "typing.Deque[int]", "collections.abc.Sequence[int]", "typing.Sequence[int]", "collections.abc.Mapping[str, int]",
    "typing.Mapping[str, int]", "collections.abc.Iterable[int]", "typing.Iterable[int]", "collections.abc.Iterator[int]", "typing.Iterator[int]",
    "collections.abc.Set[int]", "typing.AbstractSet[int]", "collections.abc.MutableSet[int]", "typing.MutableSet[int]",
    "collections.abc.MutableMapping[str, int]", "typing.MutableMapping[str, int]", "collections.abc.Collection[int]", "typing.Collection[int]",
    "collections.defaultdict[str, int]", "typing.DefaultDict[str, int]", "collections.OrderedDict[str, int]", "typing.OrderedDict[str, int]",
    "collections.abc.MutableSequence[int]", "typing.MutableSequence[int]",
    "VwE", "VwIE", "VwSE", "VwDC", "VwFDC", "VwSubDC", "VwNT", "VwTD", "VwPlain", "VwNoHints", "VwStrSub", "VwListSub", "VwDictSub", "VwGen",
    "VwGen[int]", "VwUnhashable", "VwAbstract", "VwProto", "VwGenOuter.VwGenInner",
    "VwNInt", "VwNStr", "VwNDate", "VwNList", "VwNDict", "VwNNInt", "VwNDC", "VwNPath", "VwNBytes", "VwNFloat",
    "VwAInt", "VwAList", "VwADict", "VwADate",
    "Literal", "Final", "Union", "Optional", "ClassVar", "VwTDX", "VwTDXChild",
]
SPECIAL = [
    "typing.Optional[int]", "int | None", "typing.Union[int, None]", "typing.Union[None, int]", "None | int",
    "typing.Union[int, str]", "int | str", "typing.Union[str, int]", "str | int", "typing.Union[int, str, None]", "int | str | None",
    "typing.Optional[list[int]]", "list[int] | None", "typing.Optional[VwDC]", "VwDC | None",
    "typing.Literal[1, 2]", "typing.Literal[2, 1]", "typing.Literal['a']", "typing.Literal[None, 1]", "typing.Literal[1, None]",
    "typing.Final[int]", "typing.Final[list[int]]", "typing.ClassVar[int]", "typing.ClassVar[list[int]]", "typing.Final", "typing.ClassVar",
    "VwT", "VwTB", "VwTC", "typing.Callable", "typing.Callable[..., int]", "typing.Callable[[int], str]", "collections.abc.Callable",
    "typing.Any", "object", "None", "...", "typing.ForwardRef('VwDC', module='vw0')", "typing.ForwardRef('int')", "VwAOpt", "VwAStr",
    "typing.Optional[VwNInt]", "VwNInt | None", "typing.Annotated[int, 'x']",
    # qualifiers directly around aliases / NewTypes: two kinds of wrapper that must both be looked through
    "typing.ClassVar[VwADict]", "typing.ClassVar[dict[str, int]]", "typing.ClassVar[VwAList]", "typing.Final[VwAList]", "typing.Final[VwADict]",
    "typing.ClassVar[VwAOpt]", "typing.ClassVar[typing.Optional[int]]", "typing.Final[VwAOpt]", "typing.Final[typing.Optional[int]]",
    "typing.ClassVar[VwNList]", "typing.Final[VwNDict]", "typing.ClassVar[VwAInt]", "typing.Final[VwNInt]", "typing.Final[dict[str, int]]",
]
INSTANCES = [
    "1", "True", "1.5", "'s'", "b'b'", "None", "[1]", "(1,)", "{1}", "{'a': 1}", "frozenset()", "datetime.date(2020, 1, 1)",
    "decimal.Decimal('1')", "uuid.UUID(int=1)", "pathlib.PurePosixPath('a')", "VwDC()", "VwFDC()", "VwNT()", "VwPlain()", "VwE.A",
    "VwUnhashable()", "VwPlain.prop", "VwPlain.__dict__['cprop']", "VwPlain.meth", "VwPlain().meth", "vw_func", "len", "VwPlain", "int",
    "VwPlain.__dict__['from_dict']", "collections.deque()", "range(3)", "object()", "lambda: 0",
    "VwRecord(name='x')", "VwNamespace()", "property", "staticmethod(len)",
    # instances of subclasses of property / cached_property
    "VwPropHost.lazy", "VwPropHost.__dict__['timed']", "VwPropHost.__dict__['abstract']", "VwLazyProp", "VwPropHost()",
]

# spelling groups: entries that denote one type (answers must be independent of spelling)
GROUPS = [
    ["list[int]", "typing.List[int]"], ["set[str]", "typing.Set[str]"], ["frozenset[int]", "typing.FrozenSet[int]"],
    ["dict[str, int]", "typing.Dict[str, int]"], ["tuple[int, ...]", "typing.Tuple[int, ...]"], ["tuple[int, str]", "typing.Tuple[int, str]"],
    ["collections.deque[int]", "typing.Deque[int]"], ["collections.abc.Sequence[int]", "typing.Sequence[int]"],
    ["collections.abc.Mapping[str, int]", "typing.Mapping[str, int]"], ["collections.abc.Iterable[int]", "typing.Iterable[int]"],
    ["collections.abc.Iterator[int]", "typing.Iterator[int]"], ["collections.abc.Set[int]", "typing.AbstractSet[int]"],
    ["collections.abc.MutableSet[int]", "typing.MutableSet[int]"], ["collections.abc.MutableMapping[str, int]", "typing.MutableMapping[str, int]"],
    ["collections.abc.Collection[int]", "typing.Collection[int]"], ["collections.defaultdict[str, int]", "typing.DefaultDict[str, int]"],
    ["collections.OrderedDict[str, int]", "typing.OrderedDict[str, int]"], ["collections.abc.MutableSequence[int]", "typing.MutableSequence[int]"],
    ["typing.Optional[int]", "int | None", "typing.Union[int, None]", "typing.Union[None, int]", "None | int"],
    ["typing.Union[int, str]", "int | str", "typing.Union[str, int]", "str | int"], ["typing.Union[int, str, None]", "int | str | None"],
    ["typing.Optional[list[int]]", "list[int] | None"], ["typing.Optional[VwDC]", "VwDC | None"], ["typing.Literal[1, 2]", "typing.Literal[2, 1]"],
    ["typing.Literal[None, 1]", "typing.Literal[1, None]"], ["typing.Optional[VwNInt]", "VwNInt | None"],
    ["typing.ClassVar[VwADict]", "typing.ClassVar[dict[str, int]]"], ["typing.ClassVar[VwAList]", "typing.ClassVar[list[int]]", "typing.ClassVar[VwNList]"],
    ["typing.Final[VwAList]", "typing.Final[list[int]]"], ["typing.Final[VwADict]", "typing.Final[dict[str, int]]", "typing.Final[VwNDict]"],
    ["typing.ClassVar[VwAOpt]", "typing.ClassVar[typing.Optional[int]]"], ["typing.Final[VwAOpt]", "typing.Final[typing.Optional[int]]"],
    ["typing.ClassVar[VwAInt]", "typing.ClassVar[int]"], ["typing.Final[VwNInt]", "typing.Final[int]"],
    ["collections.abc.Sequence", "typing.Sequence"], ["collections.abc.Mapping", "typing.Mapping"], ["collections.abc.Iterable", "typing.Iterable"],
    ["collections.abc.MutableMapping", "typing.MutableMapping"], ["collections.abc.Set", "typing.AbstractSet"], ["list", "typing.List"],
    ["dict", "typing.Dict"], ["set", "typing.Set"], ["frozenset", "typing.FrozenSet"], ["tuple", "typing.Tuple"], ["collections.deque", "typing.Deque"],
]
GROUP_OF = {e: gi for gi, g in enumerate(GROUPS) for e in g}

# documented abstract-to-builtin map (py/inspection.py GENERIC_TYPE_MAP)
ABSTRACT = {
    collections.abc.Sequence: list, collections.abc.MutableSequence: list, collections.abc.Collection: list, collections.abc.Iterable: list,
    collections.abc.Set: set, collections.abc.MutableSet: set, collections.abc.Mapping: dict, collections.abc.MutableMapping: dict,
    collections.abc.Hashable: str,
}
_COLL = {list, set, tuple, frozenset, dict, str, bytes}


def resolve(o):
    """The class an annotation resolves to: NewType and alias resolution, typing origin, the
    documented abstract-to-builtin mapping.  None if it does not resolve to a class."""
    for _ in range(16):
        if hasattr(o, "__supertype__"):
            o = o.__supertype__
            continue
        if isinstance(o, typing.TypeAliasType) and not isinstance(o.__value__, str):
            o = o.__value__
            continue
        break
    o = typing.get_origin(o) or o
    o = ABSTRACT.get(o, o)
    return o if isinstance(o, type) else None


def _sub(base):
    return lambda o: issubclass(o, base)


CLASS_MODEL = {
    "isdatetype": _sub(datetime.date), "isdatetimetype": _sub(datetime.datetime), "istimetype": _sub(datetime.time),
    "istimedeltatype": _sub(datetime.timedelta), "isdecimaltype": _sub(decimal.Decimal), "isfractiontype": _sub(fractions.Fraction),
    "isuuidtype": _sub(uuid.UUID), "isiterabletype": _sub(collections.abc.Iterable), "isiteratortype": _sub(collections.abc.Iterator),
    "istupletype": _sub(tuple), "isenumtype": _sub(enum.Enum), "isstringtype": _sub(str), "isbytestype": _sub((bytes, bytearray, memoryview)),
    "istexttype": _sub((str, bytes, bytearray, memoryview)), "isnumbertype": _sub(numbers.Number), "isintegertype": _sub(int),
    "isfloattype": _sub(float), "ispatterntype": _sub(re.Pattern), "ispathtype": _sub(pathlib.PurePath),
    "ismappingtype": lambda o: issubclass(o, collections.abc.Mapping) or issubclass(o, (dict, types.MappingProxyType)),
    "issequencetype": lambda o: o in _COLL or issubclass(o, collections.abc.Sequence),
    "iscollectiontype": lambda o: o in _COLL or issubclass(o, collections.abc.Collection),
}
# predicates that take the class itself (no resolution through NewType/alias in the statement's domain)
NO_MODEL_CLASSY = ["isbuiltintype", "isstdlibtype", "isbuiltinsubtype", "isstdlibsubtype", "isstructuredtype", "isfrozendataclass", "isfromdictclass",
                   "istypeddict", "isnamedtuple", "istypedtuple", "isgeneric", "issubscriptedgeneric", "isabstract", "name", "qualname",
                   "resolve_supertype", "unwrap", "should_unwrap"]
# signature helpers: their documented domain is user classes and functions
SIG_PREDS = ["get_type_hints", "safe_get_params", "simple_attributes", "cached_signature"]
SIG_OBJECTS = ["VwDC", "VwFDC", "VwSubDC", "VwNT", "VwTD", "VwTDX", "VwTDXChild", "VwPlain", "VwNoHints", "vw_func", "tuple[int, str]", "tuple[int, ...]"]
SPECIAL_PREDS = ["isoptionaltype", "isuniontype", "isliteral", "isfinal", "isclassvartype", "isunresolvable", "isnonetype", "isforwardref",
                 "isgeneric", "issubscriptedgeneric", "isfixedtupletype", "origin", "args", "unwrap", "should_unwrap", "name", "qualname",
                 "resolve_supertype", "istypealiastype", "iscallable"]
INSTANCE_PREDS = ["isbuiltininstance", "isstdlibinstance", "ishashable", "isproperty", "isdescriptor", "issimpleattribute"]

_MISSING = object()
EXACT_MODEL = {
    "isuniontype": lambda o: typing.get_origin(_peel_alias(o)) in (typing.Union, types.UnionType),
    "isliteral": lambda o: typing.get_origin(o) is typing.Literal,
    "isnonetype": lambda o: o is None or o is type(None),
    "isforwardref": lambda o: type(o) is typing.ForwardRef,
    "istypealiastype": lambda o: isinstance(o, typing.TypeAliasType),
    "isfixedtupletype": lambda o: typing.get_origin(o) is tuple and bool(typing.get_args(o)) and typing.get_args(o)[-1] is not Ellipsis,
    "istypeddict": lambda o: typing.is_typeddict(o) or __import__("typing_extensions").is_typeddict(o),
    "isnamedtuple": lambda o: isinstance(o, type) and issubclass(o, tuple) and hasattr(o, "_fields"),
    "isfrozendataclass": lambda o: bool(dataclasses.is_dataclass(o) and o.__dataclass_params__.frozen),
    "ishashable": lambda o: _hashable(o),
    # the descriptor protocol is looked up statically (on the object's own namespace and its type's MRO),
    # never through a dynamic __getattr__
    "isdescriptor": lambda o: any(inspect.getattr_static(o, m, _MISSING) is not _MISSING for m in ("__get__", "__set__", "__delete__")),
    "isproperty": lambda o: isinstance(o, (property, __import__("functools").cached_property)),
    "isoptionaltype": lambda o: _is_optional(o),
    "isclassvartype": lambda o: (typing.get_origin(o) or o) is typing.ClassVar,
    "isfinal": lambda o: (typing.get_origin(o) or o) is typing.Final,
    # for a class (not a typing form) the runtime's own answer
    # an alias that is a class subscripted with parameters - zero parameters included (tuple[()]) - is subscripted
    "issubscriptedgeneric": lambda o: _subscripted_class_alias(o),
    "qualname": lambda o: _class_names(o)[0],
    "name": lambda o: _class_names(o)[1],
}


def _model_unwrap(o):
    """What is left of an annotation once qualifiers, value aliases and NewTypes are looked through, in any
    nesting - for chains that consist of nothing else and end at a class or a subscripted generic."""
    seen_wrapper = False
    for _ in range(16):
        if typing.get_origin(o) in (typing.ClassVar, typing.Final) and typing.get_args(o):
            o, seen_wrapper = typing.get_args(o)[0], True
        elif isinstance(o, typing.TypeAliasType) and not isinstance(o.__value__, str):
            o, seen_wrapper = o.__value__, True
        elif hasattr(o, "__supertype__"):
            o, seen_wrapper = o.__supertype__, True
        else:
            break
    if not seen_wrapper or isinstance(o, (typing.TypeVar, str, typing.ForwardRef, typing.TypeAliasType)):
        return _MISSING
    if typing.get_origin(o) in (typing.Union, types.UnionType, typing.Annotated, typing.Literal) or not (inspect.isclass(o) or typing.get_args(o)):
        return _MISSING
    return o


def _subscripted_class_alias(o):
    og = typing.get_origin(o)
    if isinstance(og, type) and hasattr(o, "__args__") and not isinstance(o, type) and og.__module__ in ("builtins", "collections", "collections.abc"):
        return True
    raise TypeError("no model")


def _class_names(o):
    if not inspect.isclass(o) or typing.get_origin(o) is not None or o.__module__ in ("typing", "typing_extensions"):
        raise TypeError("not a plain class")
    q = o.__qualname__.replace("<locals>.", "")
    return q, q.rsplit(".")[-1]


# accessors whose answer legitimately differs between spellings of one union (str-based)
SPELLING_SENSITIVE = ("name", "qualname", "isgeneric", "issubscriptedgeneric", "unwrap", "resolve_supertype", "args")


def _peel_alias(o):
    while isinstance(o, typing.TypeAliasType) and not isinstance(o.__value__, str):
        o = o.__value__
    return o


def _is_optional(o):
    o = _peel_alias(o)
    org = typing.get_origin(o)
    if org in (typing.Union, types.UnionType, typing.Literal):
        return any(a is None or a is type(None) for a in typing.get_args(o))
    return False


def _hashable(o):
    try:
        hash(o)
        return True
    except TypeError:
        return False


def norm_answer(pred, v):
    """Canonical rendering of an answer; typing.Union and types.UnionType count as one origin."""
    if pred == "origin" and v in (typing.Union, types.UnionType):
        return "Union"
    if isinstance(v, bool) or v is None or isinstance(v, (int, str)):
        return v
    if isinstance(v, (tuple, list)):
        return [norm_answer(pred, x) for x in v]
    if isinstance(v, dict):
        return {str(k): norm_answer(pred, x) for k, x in v.items()}
    if isinstance(v, inspect.Signature):
        return str(v)
    if isinstance(v, (typing.TypeAliasType,)):
        return "alias:" + v.__name__
    try:
        from .c09 import tnorm

        return tnorm(v)
    except Exception:
        return model._tstr(v)


def pairs_catalogue():
    out = []
    for e in CLASSY:
        for p in list(CLASS_MODEL) + NO_MODEL_CLASSY + ["origin", "args", "isoptionaltype", "isuniontype", "isliteral", "isnonetype", "isforwardref",
                                                        "isfixedtupletype", "isunresolvable", "isfinal", "isclassvartype", "istypealiastype"]:
            out.append((p, e, "classy"))
    for e in SPECIAL:
        for p in SPECIAL_PREDS:
            out.append((p, e, "special"))
    for e in INSTANCES:
        for p in INSTANCE_PREDS:
            out.append((p, e, "instance"))
    for e in SIG_OBJECTS:
        for p in SIG_PREDS:
            out.append((p, e, "sig"))
    return out


CATALOGUE = pairs_catalogue()


class C17(PropBase):
    ID = "C17"
    NEEDS_COLD = True
    QUICK_RUNS = 1500
    THOROUGH_RUNS = 60000
    QUICK_BUDGET_S = 60
    THOROUGH_BUDGET_S = 600
    FAULT_KINDS = FAULTS
    RULE = (
        f"The finite catalogue ({len(CATALOGUE)} predicate x object pairs: {len(CLASSY)} class-valued annotations in all spellings, "
        f"{len(SPECIAL)} special forms, {len(INSTANCES)} instances; class-valued predicates are not applied to special forms) is walked "
        "in seeded slices: the seed decides which pairs, their order, which equal-but-differently-spelled twins are adjacent and where "
        "predicate memos / typing caches are cleared. Oracles: in-domain calls never raise; each answer equals the answer of the same "
        "call in a pristine process that walks the slice in reverse order (stability); spellings of one type give one answer; "
        "class-valued predicates equal issubclass(resolve(o), base) with resolve = NewType/alias resolution + typing origin + the "
        "documented abstract-to-builtin map; special-form predicates equal typing.get_origin/get_args-based models. Non-trivial: a "
        "twin spelling of the object was evaluated by the same predicate earlier in the run, or a cache clear fired before; distinct = "
        "distinct (predicate, object, pre-state) triples."
        ' Under the swept exhaustion fault each pair of a slice is first asked from every stack depth at which the call cannot complete.'
    )
    ASSUMPTIONS = ["issequencetype / iscollectiontype adopt the documented _COLLECTIONS quirk; predicates without a pinned meaning "
                   "(isstructuredtype, isbuiltin*/isstdlib*, isgeneric, name/qualname, signature helpers) are checked for totality, stability and "
                   "spelling independence only"]

    def gen(self, seed, tier):
        rng = core.rng_for(seed, "gen")
        sw = hist.swarm(rng, FAULTS)
        k = rng.randint(40, 160 if tier == "quick" else 400)
        idx = [rng.randrange(len(CATALOGUE)) for _ in range(k)]
        items = []
        for i in idx:
            p, e, dom = CATALOGUE[i]
            if "twin_adjacent" in sw and e in GROUP_OF and rng.random() < 0.7:
                twin = rng.choice([x for x in GROUPS[GROUP_OF[e]] if x != e])
                items.append([p, twin, dom])
            items.append([p, e, dom])
        steps = []
        pos = 0
        while pos < len(items):
            n = rng.randint(5, 40)
            steps.append({"op": "preds", "items": items[pos:pos + n], "mod": "vw0"})
            if "exhaust_scan" in sw and rng.random() < 0.3:
                # each pair is first asked from every stack depth at which the call cannot complete
                # (RecursionError one frame further in each time), then at normal depth
                steps[-1]["scan"] = True
            pos += n
            if sw.get("clear") and rng.random() < sw["clear"]:
                steps.append({"op": "clear", "group": rng.choice(["predicates", "all"])})
            if sw.get("clear_typing") and rng.random() < sw["clear_typing"]:
                steps.append({"op": "clear_typing"})
        return {"prop": self.ID, "seed": seed, "tier": tier, "world": WORLD, "env": self.base_env(rng, fault_free=True),
                "steps": steps_with_ids(steps), "meta": {"swarm": sw}}

    def comparable(self, sess, i, step):
        return False

    def pre_run(self, sess):
        sess.answers = {}  # (pred, expr) -> normalised answer (first seen)
        sess.group_answers = {}
        sess.all_items = []

    def _eval_items(self, sess, items, record, scan=False):
        from typelib.py import inspection

        gl = sess.world.modules["vw0"].__dict__
        out = []
        for p, e, dom in items:
            try:
                obj = eval(e, gl)
            except Exception as ex:  # noqa: BLE001
                out.append(["harness-eval-error", type(ex).__name__])
                continue
            fn = getattr(inspection, p)
            if scan:
                sess.scan_exhaust({"mod": "vw0"}, fn, obj, max_attempts=120)
            try:
                if p == "get_type_hints":
                    r = fn(obj)
                else:
                    r = fn(obj)
                ans = ["ok", norm_answer(p, r)]
            except RecursionError:
                raise
            except Exception as ex:  # noqa: BLE001
                ans = ["exc", type(ex).__name__]
            out.append(ans)
            if record is not None:
                record(p, e, dom, obj, ans)
        return out

    def exec_op(self, sess, i, step):
        if step["op"] != "preds":
            return None
        if sess.is_cold:
            return Outcome(True, self._eval_items(sess, step["items"], None))
        res = self._eval_items(sess, step["items"], lambda *a: self._judge(sess, i, *a), scan=bool(step.get("scan")))
        sess.all_items.extend(step["items"])
        return Outcome(True, res)

    def nontrivial(self, sess, i, step, out, hit_delta):
        return step["op"] == "preds" and (sess.fault_fired_before or hit_delta > 0)

    def _judge(self, sess, i, p, e, dom, obj, ans):
        sess.stats["pairs_evaluated"] += 1
        sess.nontrivial.add(core.digest(core.jdump([p, e, sess.fault_fired_before])))
        # (a) totality inside the domain
        if ans[0] == "exc":
            sess.violation("predicate-raised", i, {"pred": p, "obj": e, "exc": ans[1]}, sig=f"raised:{p}:{ans[1]}:{_oclass(e)}")
            return
        # (b') stable within the run
        key = (p, e)
        if key in sess.answers and sess.answers[key] != ans:
            if _oclass(e) == "union" and p in SPELLING_SENSITIVE:
                sess.violation("answer-depends-on-history", i, {"pred": p, "obj": e, "first": repr(sess.answers[key])[:120], "now": repr(ans)[:120]},
                               sig="history:union-spelling-alias")
            else:
                sess.violation("answer-unstable", i, {"pred": p, "obj": e, "first": repr(sess.answers[key])[:120], "now": repr(ans)[:120]},
                               sig=f"unstable:{p}:{_oclass(e)}")
        sess.answers.setdefault(key, ans)
        # (c) spelling independence
        if e in GROUP_OF and p not in ("name", "qualname", "isgeneric", "issubscriptedgeneric", "args", "get_type_hints", "unwrap", "resolve_supertype",
                                      "isbuiltintype", "isstdlibtype", "isbuiltinsubtype", "isstdlibsubtype", "cached_signature", "safe_get_params",
                                      "simple_attributes", "isabstract"):
            gk = (p, GROUP_OF[e])
            prev = sess.group_answers.get(gk)
            if prev is not None and prev[1] != ans:
                sess.violation("spelling-dependent", i, {"pred": p, "a": prev[0], "a_answer": repr(prev[1])[:100], "b": e, "b_answer": repr(ans)[:100]},
                               sig=f"spelling:{p}:{_oclass(e)}")
            sess.group_answers.setdefault(gk, (e, ans))
        # (d) the runtime as reference model
        if dom == "classy" and p in CLASS_MODEL:
            cls = resolve(obj)
            if cls is None:
                return
            try:
                want = bool(CLASS_MODEL[p](cls))
            except TypeError:
                return
            if ans[1] is not want:
                sess.violation("disagrees-with-runtime", i, {"pred": p, "obj": e, "resolves_to": model.qn(cls), "library": ans[1], "runtime": want},
                               sig=f"runtime:{p}:{_oclass(e)}")
        elif p in EXACT_MODEL and dom in ("classy", "special", "instance"):
            if p in ("isoptionaltype", "isuniontype") and typing.get_origin(obj) in (typing.ClassVar, typing.Final):
                # the statement resolves NewTypes and aliases; whether a qualifier around a union is looked
                # through is not pinned (the library does for ClassVar, not for Final): stability, spelling
                # independence and the cold comparison still apply
                return
            try:
                want = EXACT_MODEL[p](obj)
            except Exception:
                return
            if ans[1] != want:
                sess.violation("disagrees-with-runtime", i, {"pred": p, "obj": e, "library": ans[1], "runtime": want}, sig=f"runtime:{p}:{_oclass(e)}")
        elif p == "unwrap" and dom in ("classy", "special"):
            want = _model_unwrap(obj)
            if want is not _MISSING and ans[1] != norm_answer("unwrap", want):
                sess.violation("disagrees-with-runtime", i, {"pred": p, "obj": e, "library": ans[1], "runtime": norm_answer("unwrap", want)}, sig=f"runtime:unwrap:{_oclass(e)}")
        elif p == "origin" and dom == "classy":
            cls = resolve(obj)
            if cls is not None:
                want = norm_answer("origin", cls)
                if ans[1] != want and not (isinstance(cls, type) and issubclass(cls, collections.abc.Callable) and ans[1] == norm_answer("origin", typing.Callable)):
                    sess.violation("disagrees-with-runtime", i, {"pred": p, "obj": e, "library": ans[1], "runtime": want}, sig=f"runtime:origin:{_oclass(e)}")
                elif typing.get_args(_peel_alias(obj)) and cls in (list, set, frozenset, dict, tuple, collections.deque):
                    try:
                        cls()
                    except Exception:
                        sess.violation("origin-not-instantiable", i, {"obj": e}, sig="origin-not-instantiable")
        elif p == "args" and dom in ("classy", "special") and type(obj) is not typing.TypeVar:
            want = norm_answer("args", tuple(typing.Any if type(a) is typing.TypeVar and not a.__bound__ and not a.__constraints__ else a
                                               for a in typing.get_args(obj)))
            if typing.get_args(obj) and not any(type(a) is typing.TypeVar for a in typing.get_args(obj)) and ans[1] != want:
                sess.violation("disagrees-with-runtime", i, {"pred": p, "obj": e, "library": ans[1], "runtime": want}, sig=f"runtime:args:{_oclass(e)}")

    def check(self, sess, i, step, out):
        pass

    def finish(self, sess):
        # (b) stability against a pristine process that walks the same pairs in reverse order
        items = list(reversed(sess.all_items))
        if not items or sess.is_cold:
            return
        cold = sess.cold_exec({"op": "preds", "items": items, "mod": "vw0", "id": 0})
        if "error" in cold:
            raise RuntimeError(f"harness: cold execution failed: {cold['error']}")
        answers = cold["canon"][1]
        # canon of a list of [tag, value] lists: ["list", [ ["list", [["str","ok"], ...]] ... ]]
        cold_map = {}
        for (p, e, dom), ca in zip(items, answers[1]):
            cold_map.setdefault((p, e), core.jdump(ca))
        for (p, e), ans in sess.answers.items():
            mine = core.jdump(model.canon(ans))
            if (p, e) in cold_map and cold_map[(p, e)] != mine:
                sess.violation("answer-depends-on-history", len(sess.history["steps"]) - 1, {"pred": p, "obj": e, "here": mine[:160], "cold": cold_map[(p, e)][:160]},
                               sig="history:union-spelling-alias" if (_oclass(e) == "union" and p in SPELLING_SENSITIVE)
                               else f"history:{p}:{_oclass(e)}")


def _oclass(e: str) -> str:
    if e.startswith("VwN"):
        return "newtype"
    if e.startswith("VwA"):
        return "alias"
    if "|" in e or "Union" in e or "Optional" in e:
        return "union"
    if e.startswith("typing.") and "[" not in e:
        return "typing-bare"
    if "[" in e:
        return "subscripted"
    if e.startswith("Vw"):
        return "user-class"
    return "class"


PROP = C17()
