"""C14 - text-like inputs are interchangeable."""

from __future__ import annotations

import ast
import copy
import json

from .. import core, gen, hist, model
from ..session import Outcome
from . import PropBase, steps_with_ids

FAULTS = ("buffer_reuse", "other_carrier_first", "shrink", "clear", "mutate_loaded", "exhaust_scan", "cut_window")

MALFORMED = ["[1, 2", '{"a": 1', "{'a': 1}", "[1,]", "nul", "tru", "01", "1.", ".5", "--1", '"unterminated', "{]", "[[]", "1 2", "{\"a\":}",
             "\x00", "\x7f", "a\x00b", "﻿1", " 1 ", "\t[1]\n", "é", "中文", "\U0001f600", "1,2", "(1, 2)", "{1, 2}", "b'x'", "None", "True",
             "1e3", "-0", "0.0", "1E+2", "12345678901234567890123", "[1, [2, [3]]]", '{"a": {"b": [1, null, true]}}', '""', '"x"', "null", "true", "false"]


def _strict_json(s: str):
    def bad_const(c):
        raise ValueError(c)

    return json.loads(s, parse_constant=bad_const)


def _drain(x, depth=0):
    """Read lazily produced parts of a result to the end (iterators become lists)."""
    import collections.abc

    if depth > 20:
        return x
    if isinstance(x, collections.abc.Iterator):
        return [_drain(e, depth + 1) for e in x]
    if isinstance(x, dict):
        return {k: _drain(v, depth + 1) for k, v in x.items()}
    if isinstance(x, list):
        return [_drain(e, depth + 1) for e in x]
    if isinstance(x, tuple) and type(x) is tuple:
        return tuple(_drain(e, depth + 1) for e in x)
    return x


class C14(PropBase):
    ID = "C14"
    REPLICAS = 2
    QUICK_RUNS = 3000
    THOROUGH_RUNS = 100000
    QUICK_BUDGET_S = 60
    THOROUGH_BUDGET_S = 600
    FAULT_KINDS = FAULTS
    RULE = (
        "A case is one carrier comparison of a seeded history: unmarshal(T, s) for the same text in str / bytes / bytearray / "
        "memoryview(bytes) / memoryview(bytearray) (all equal or all rejecting), JSON or repr text of a wire value vs the decoded "
        "value, or serdes.load/strload/decode against the standard JSON decoder. Non-trivial: the call used a re-used buffer that "
        "held another message before (F4), the text was seen in another carrier earlier, the strload memo was shrunk to capacity "
        "1/2, a decoded container returned earlier was mutated, or a memo written earlier was read; distinct = distinct "
        "(operation digest, pre-state signature) pairs."
        ' Under the swept exhaustion fault the first carrier is first offered from every stack depth at which the call cannot complete (Python-literal text over-represented). Cut windows: the byte carriers are given bytes that end inside a multi-byte character (no str says the same); they still get one answer.'
    )
    ASSUMPTIONS = ["T has no bytes-like members", "JSON texts are those produced by json.dumps of wire values plus a fixed pool of look-alikes and malformed texts; "
                   "NaN/Infinity are not JSON"]

    def gen(self, seed, tier):
        rng = core.rng_for(seed, "gen")
        # ints stay within the default decoder's 64-bit range (orjson reads larger JSON integers as
        # floats - the range C02 states for the wire; recorded in DESIGN.md §9)
        cfg = gen.Cfg.for_tier(tier, str_keys_only=rng.random() < 0.7, int64=True)
        sw = hist.swarm(rng, FAULTS)
        world, view = gen.gen_world(rng, cfg)
        lk = view.lookup()
        mods = [m["name"] for m in world["modules"]]
        env = self.base_env(rng, fault_free=not sw)
        if rng.random() < 0.3:
            env["json"] = "stdlib"  # the supported installation without orjson
        pool = []
        for t in gen.root_types(view, rng, cfg, rng.randint(1, 4)):
            pairs = [gen.gen_pair(rng, t, lk, cfg) for _ in range(rng.randint(1, 3))]
            pool.append((t, pairs))
        steps = []
        n = rng.randint(1, 12 if tier == "quick" else 30)
        fk = [k for k in sw if k in ("shrink", "clear")]
        texts_seen = []
        while len(steps) < n:
            r = rng.random()
            if fk and steps and r < 0.15:
                f = hist.fault_step(rng, rng.choice(fk), steps)
                if f["op"] == "shrink":
                    f["name"] = "strload"
                    f["cap"] = rng.choice([1, 1, 2])
                steps.append(f)
                continue
            t, pairs = rng.choice(pool)
            v, w = rng.choice(pairs)
            jt = hist.json_text(w)
            rt = hist.repr_text(w)
            if "cut_window" in sw and rng.random() < 0.12:
                # a fixed-size window that ends inside a multi-byte character: the bytes are not text in the
                # encoding, no str says the same - the byte carriers still all get one answer, and
                # whatever was read of it must not be there for the next message
                txt = rng.choice(["caf\u00e9", "\u4e2d\u6587", "[1, \"\u00e9\"]", "{\"k\": \"\U0001f600\"}", "12\u00e9", "\u00e9"])
                raw = txt.encode("utf-8")
                order = ["bytes", "bytearray", "mv", "mvw", "mvs", "mvws"]
                rng.shuffle(order)
                steps.append({"op": "cut", "t": t, "hex": raw[:-1].hex(), "order": order, "mod": rng.choice(mods)})
                continue
            if rng.random() < 0.04:
                # a long message of multi-byte characters: its size in characters and its size in bytes lie on
                # different sides of the round numbers (4 Ki, 64 Ki, ...) a size limit would be set at
                nchars = rng.choice([1500, 3000, 22000, 30000, 45000, 60000])
                ch = rng.choice(["\u6771", "\u00e9", "\U0001f600"])
                parts = [ch * (nchars // 4)] * 4
                s = repr(parts) if rng.random() < 0.6 else json.dumps(parts, ensure_ascii=False)
                order = list(hist.CARRIERS)
                rng.shuffle(order)
                steps.append({"op": "carriers", "t": {"k": "list", "a": {"k": "str"}}, "s": s, "order": order, "mod": rng.choice(mods)})
                continue
            if rng.random() < 0.04:
                # text whose byte length is a "magic" length of a binary form of the target (16 bytes: a packed UUID;
                # 4/8: packed numbers): it is text all the same, in every carrier
                tt = rng.choice([{"k": "uuid"}, {"k": "union", "sp": "optional", "a": [{"k": "uuid"}, {"k": "none"}]}, {"k": "int"}, {"k": "float"}, {"k": "dt"}])
                s16 = rng.choice(["1234567890123456", "abcdefghijklmnop", "\u00e9" * 8, "not-a-uuid-value", "12345678", "1234", "\u00e9\u00e9", "2020-01-01T00:00"])
                order = list(hist.CARRIERS)
                rng.shuffle(order)
                steps.append({"op": "carriers", "t": tt, "s": s16, "order": order, "mod": rng.choice(mods)})
                continue
            kind = core.weighted(rng, [(6, "carriers"), (3, "text_vs_value"), (4, "load"), (2 if "buffer_reuse" in sw else 0, "reuse"),
                                       (2 if "mutate_loaded" in sw else 0, "load_mutate")])
            mod = rng.choice(mods)
            if kind == "carriers":
                src = rng.random()
                if src < 0.5 and jt is not None:
                    s = jt
                elif src < 0.6 and rt is not None:
                    s = rt
                elif src < 0.8:
                    s = rng.choice(MALFORMED)
                else:
                    s = gen.gen_str(rng)
                if texts_seen and "other_carrier_first" in sw and rng.random() < 0.3:
                    s = rng.choice(texts_seen)
                texts_seen.append(s)
                order = list(hist.CARRIERS) + list(hist.WINDOW_CARRIERS)
                rng.shuffle(order)
                steps.append({"op": "carriers", "t": t, "s": s, "order": order, "mod": mod})
                if "exhaust_scan" in sw and rng.random() < 0.4:
                    # the first carrier is first offered from every stack depth at which the call cannot
                    # complete; the text is more often Python-literal than JSON here (two decoders in a row)
                    steps[-1]["scan"] = True
                    if rt is not None and rng.random() < 0.5:
                        steps[-1]["s"] = rt
            elif kind == "text_vs_value":
                if jt is None or not _is_composite(t, lk):
                    continue
                steps.append({"op": "text_vs_value", "t": t, "w": copy.deepcopy(w), "render": rng.choice(["json", "json", "repr"]),
                              "carrier": rng.choice(hist.CARRIERS + hist.WINDOW_CARRIERS), "mod": mod})
            elif kind == "load":
                src = rng.random()
                s = jt if (src < 0.5 and jt is not None) else (rng.choice(MALFORMED) if src < 0.8 else gen.gen_str(rng))
                steps.append({"op": "load", "s": s, "carrier": rng.choice(hist.CARRIERS + hist.WINDOW_CARRIERS + ("nontext",)), "fn": rng.choice(["load", "strload", "decode"])})
            elif kind == "reuse":
                if jt is None:
                    continue
                t2, pairs2 = rng.choice(pool)
                v2, w2 = rng.choice(pairs2)
                a = hist.json_text(w2) or rng.choice(MALFORMED)
                steps.append({"op": "reuse", "t": t, "first": a, "second": jt, "buf": rng.choice(["bytearray", "mvw"]), "mod": mod,
                              "t_first": t2 if rng.random() < 0.5 else t})
                if rng.random() < 0.35:
                    # a lazily consumed result: what it yields was fixed when the call returned, not when the
                    # caller gets round to reading it (the buffer holds the next message by then)
                    src, txt = rng.choice([("typing.Iterator[int]", "[1, 2, 3]"), ("collections.abc.Iterator[str]", '["a", "b"]'),
                                           ("typing.Iterator[tuple[int, str]]", '[[1, "x"], [2, "y"]]'), ("typing.Iterable[int]", "[4, 5]"),
                                           ("dict[str, typing.Iterator[int]]", '{"k": [1, 2]}')])
                    steps[-1]["t_first"] = {"k": "raw", "src": src}
                    steps[-1]["first"] = txt
            else:
                r2 = rng.random()
                if r2 < 0.4:
                    # Python-literal (not JSON) text: a tuple that holds mutable containers
                    s = rng.choice(["(1, [2, 3])", "{'a': (1, {'b': 2})}", "[1, (2, [3])]", "([], {})", "(1, 2), [3]", "{'k': ([1], [2])}", "((), [[]])"])
                else:
                    s = jt if jt is not None else "[1, 2]"
                steps.append({"op": "load_mutate", "s": s, "carrier": rng.choice(["str", "bytes", "mv"]),
                              "again_carrier": rng.choice(["str", "bytes", "same", "same"])})
        return {"prop": self.ID, "seed": seed, "tier": tier, "world": world, "env": env, "steps": steps_with_ids(steps), "meta": {"swarm": sw}}

    # ------------------------------------------------------------------ execution
    def exec_op(self, sess, i, step):
        import typelib
        from typelib import serdes

        op = step["op"]
        if op == "carriers":
            T = sess.T(step)
            outs = {}
            if step.get("scan"):
                sess.scan_exhaust(step, typelib.unmarshal, T, sess.V(hist.carry(step["s"], step["order"][0])))
            for c in step["order"]:
                x = sess.V(hist.carry(step["s"], c))
                outs[c] = sess.guarded(sess.call, step, typelib.unmarshal, T, x)
            sess._c14 = outs
            ref = outs["str"]
            return Outcome(ref.ok, ref.value, ref.exc)
        if op == "cut":
            T = sess.T(step)
            outs = {}
            tag = {"bytes": "$b", "bytearray": "$ba", "mv": "$mv", "mvw": "$mvw", "mvs": "$mvs", "mvws": "$mvws"}
            for c in step["order"]:
                outs[c] = sess.guarded(sess.call, step, typelib.unmarshal, T, sess.V({tag[c]: step["hex"]}))
            sess._c14 = outs
            sess.faults["cut_window"] += 1
            sess.fault_fired_before = True
            first = outs[step["order"][0]]
            return Outcome(first.ok, first.value, first.exc)
        if op == "text_vs_value":
            T = sess.T(step)
            wire_py = gen.wire_to_json(step["w"])
            text = json.dumps(wire_py) if step["render"] == "json" else repr(wire_py)
            a = sess.guarded(sess.call, step, typelib.unmarshal, T, sess.V(hist.carry(text, step["carrier"])))
            b = sess.guarded(sess.call, step, typelib.unmarshal, T, copy.deepcopy(wire_py))
            sess._c14 = (a, b, text)
            return a
        if op == "load":
            s = step["s"]
            fn = getattr(serdes, step["fn"])
            if step["carrier"] == "nontext":
                obj = [1, {"a": s}]
                out = sess.guarded(fn, obj) if step["fn"] != "strload" else Outcome(True, obj)
                sess._c14 = ("nontext", obj)
                return out
            x = sess.V(hist.carry(s, step["carrier"]))
            out = sess.guarded(fn, x)
            sess._c14 = ("text", x)
            return out
        if op == "reuse":
            T = sess.T(step)
            T1 = sess.world.realize(step["t_first"], step.get("mod"))
            buf = bytearray(step["first"].encode("utf-8"))
            view = memoryview(buf) if step["buf"] == "mvw" else buf
            first = sess.guarded(sess.call, step, typelib.unmarshal, T1, view)
            # the caller re-uses its I/O buffer for the next message
            if step["buf"] == "mvw":
                view.release()
            buf[:] = step["second"].encode("utf-8")
            view = memoryview(buf) if step["buf"] == "mvw" else buf
            second = sess.guarded(sess.call, step, typelib.unmarshal, T, view)
            ref = sess.guarded(sess.call, step, typelib.unmarshal, T, step["second"])
            # the first result is read only now; the reference is the same text as str, read at once
            ref1 = sess.guarded(sess.call, step, typelib.unmarshal, T1, step["first"])
            c_first = sess.guarded(lambda: model.canon(_drain(first.value)) if first.ok else ["exc", type(first.exc).__name__])
            c_ref1 = sess.guarded(lambda: model.canon(_drain(ref1.value)) if ref1.ok else ["exc", type(ref1.exc).__name__])
            sess._c14 = (first, second, ref, c_first, c_ref1)
            sess.faults["buffer_reuse"] += 1
            sess.fault_fired_before = True
            return second
        if op == "load_mutate":
            x = sess.V(hist.carry(step["s"], step["carrier"]))
            first = sess.guarded(serdes.load, x)
            touched = model.deep_mutate(first.value, core.rng_for(sess.seed, f"lm{i}")) if first.ok else 0
            if touched:
                sess.faults["mutate_loaded"] += 1
                sess.fault_fired_before = True
            ac = step.get("again_carrier", "same")
            again = sess.guarded(serdes.load, sess.V(hist.carry(step["s"], step["carrier"] if ac == "same" else ac)))
            sess._c14 = (first, again)
            return again
        return None

    def comparable(self, sess, i, step):
        # time-only text is documented as relative to "today"
        for k in ("s", "first", "second"):
            if k in step and hist.env_relative_value(step[k]):
                return False
        if "w" in step and hist.env_relative_value(step["w"]):
            return False
        return True

    def nontrivial(self, sess, i, step, out, hit_delta):
        return step["op"] in ("reuse", "load_mutate", "cut") or sess.fault_fired_before or hit_delta > 0

    def check(self, sess, i, step, out):
        op = step["op"]
        if op == "carriers":
            outs = sess._c14
            ref = outs["str"]
            for c, o in outs.items():
                if c == "str":
                    continue
                if o.ok != ref.ok or (o.ok and not model.same(o.value, ref.value)):
                    sess.violation("carrier-disagree", i, {"t": model.tsrc(step["t"]), "s": step["s"][:120], "carrier": c,
                                                           "str": repr(ref)[:140], "other": repr(o)[:140]},
                                   sig=f"carrier-disagree:{c}:{'raise-vs-ok' if o.ok != ref.ok else 'value'}")
                    return
        elif op == "cut":
            outs = sess._c14
            first = outs[step["order"][0]]
            for c, o in outs.items():
                if o.ok != first.ok or (o.ok and not model.same(o.value, first.value)):
                    sess.violation("carrier-disagree", i, {"t": model.tsrc(step["t"]), "bytes": step["hex"], "carrier": c, "first": repr(first)[:140], "other": repr(o)[:140]},
                                   sig=f"carrier-disagree:cut-window:{'raise-vs-ok' if o.ok != first.ok else 'value'}")
                    return
        elif op == "text_vs_value":
            a, b, text = sess._c14
            if a.ok != b.ok or (a.ok and not model.same(a.value, b.value)):
                sess.violation("text-vs-value", i, {"t": model.tsrc(step["t"]), "render": step["render"], "text": text[:160], "from_text": repr(a)[:140],
                                                    "from_value": repr(b)[:140]}, sig=f"text-vs-value:{step['render']}:{'raise-vs-ok' if a.ok != b.ok else 'value'}")
        elif op == "load":
            kind, x = sess._c14
            s = step["s"]
            if kind == "nontext":
                if not out.ok or out.value is not x:
                    sess.violation("load-nontext-touched", i, {"fn": step["fn"], "got": repr(out)[:120]}, sig=f"load-nontext:{step['fn']}")
                return
            if step["fn"] == "decode":
                if not out.ok or out.value != s or type(out.value) is not str:
                    sess.violation("decode-wrong", i, {"s": s[:100], "carrier": step["carrier"], "got": repr(out)[:120]}, sig=f"decode-wrong:{step['carrier']}")
                return
            try:
                want = _strict_json(s)
                is_json = True
            except ValueError:
                is_json = False
            if not out.ok:
                sess.violation("load-raised", i, {"s": s[:100], "carrier": step["carrier"], "fn": step["fn"], "exc": f"{type(out.exc).__name__}: {out.exc}"[:160]},
                               sig=f"load-raised:{step['fn']}:{step['carrier']}:{type(out.exc).__name__}")
                return
            if is_json:
                if model.canon(out.value) != model.canon(want) and not _json_number_equiv(out.value, want) and not _configured_decoder_says(s, out.value):
                    sess.violation("load-differs-from-json", i, {"s": s[:100], "got": repr(out.value)[:120], "json": repr(want)[:120]},
                                   sig=f"load-differs-from-json:{step['fn']}")
                return
            try:
                ast.literal_eval(s)
                is_lit = True
            except Exception:
                is_lit = False
            if not is_lit and (out.value != s or type(out.value) is not str) and not _configured_decoder_says(s, out.value):
                # (the stdlib decoder of the orjson-less installation reads NaN / Infinity: "what a JSON decoder returns")
                sess.violation("load-plain-text-changed", i, {"s": s[:100], "got": repr(out.value)[:120]}, sig=f"load-plain-text-changed:{step['fn']}")
        elif op == "reuse":
            first, second, ref, c_first, c_ref1 = sess._c14
            if c_first.ok != c_ref1.ok or (c_first.ok and c_first.value != c_ref1.value):
                sess.violation("first-result-follows-the-buffer", i, {"t_first": model.tsrc(step["t_first"]), "first": step["first"][:80], "second": step["second"][:80],
                                                                     "read_after_reuse": repr(c_first)[:160], "same_text_as_str": repr(c_ref1)[:160]},
                               sig=f"first-result-follows-the-buffer:{step['buf']}")
                return
            if second.ok != ref.ok or (second.ok and not model.same(second.value, ref.value)):
                sess.violation("buffer-reuse-stale", i, {"t": model.tsrc(step["t"]), "first": step["first"][:80], "second": step["second"][:80],
                                                         "got": repr(second)[:140], "want": repr(ref)[:140]}, sig=f"buffer-reuse-stale:{step['buf']}")
        elif op == "load_mutate":
            first, again = sess._c14
            s = step["s"]
            try:
                want = _strict_json(s)
            except ValueError:
                try:
                    want = ast.literal_eval(s)
                except Exception:
                    return
                if not again.ok or model.canon(again.value) != model.canon(want):
                    sess.violation("load-after-mutation", i, {"s": s[:100], "got": repr(again)[:140], "want": repr(want)[:100]}, sig="load-after-mutation:literal")
                return
            if not again.ok or (model.canon(again.value) != model.canon(want) and not _json_number_equiv(again.value, want)
                                and not _configured_decoder_says(s, again.value)):
                sess.violation("load-after-mutation", i, {"s": s[:100], "got": repr(again)[:140]}, sig="load-after-mutation")


COMPOSITE = set(gen.CONTAINERS1) | set(gen.CONTAINERS2) | {"tuple", "tuplevar"}


def _is_composite(t, lk) -> bool:
    """collection, mapping or structured T (after resolving NewType / alias wrappers)."""
    for _ in range(8):
        if t["k"] in ("final", "classvar"):
            t = t["a"]
            continue
        if t["k"] == "ref":
            d = lk[(t["m"], t["n"])]["decl"]
            if d["d"] in ("newtype", "alias"):
                t = d["t"]
                continue
            return d["d"] in ("dataclass", "namedtuple", "typeddict", "plain", "slotsclass")
        return t["k"] in COMPOSITE
    return False


def _configured_decoder_says(s: str, got) -> bool:
    """'a JSON decoder': the library's configured one (orjson reads integers beyond 64 bits as
    floats) is as good as the standard one."""
    from typelib.py import compat

    try:
        return model.canon(compat.json.loads(s)) == model.canon(got)
    except Exception:
        return False


def _json_number_equiv(a, b) -> bool:
    """orjson and the stdlib agree on values; allow int-vs-float spelling of whole numbers only
    where the JSON text itself is ambiguous (1E+2)."""
    try:
        return a == b and json.dumps(a) == json.dumps(b)
    except Exception:
        return False


PROP = C14()
