"""Seeded generators for worlds, type ASTs (universe U of DESIGN.md §3) and value ASTs.

Pure functions of the PRNG they are given: nothing here touches the library, a clock,
a set's iteration order or an object id.
"""

from __future__ import annotations

import dataclasses
import copy
import random

from . import core
from .model import CONTAINERS1, CONTAINERS2, LISTLIKE, SETLIKE

FIELD_NAMES = ["a", "b", "c", "value", "items", "key", "intersection", "data", "name", "at"]

LOOKALIKE_STRS = [
    "", "a", "ab", "1", "1.0", "null", "None", "true", "True", "[1]", "{}", "1,2", "2020-01-01",
    "12:00", "9:30", "1:2:3", "09:30:5", "PT1S", "0", "-1", "1e3", "NaN", '"q"', "{\"a\": 1}", "(1, 2)", " ", "x y",
    "éè", "中文", "\x00", "tab\there", "line\nbreak", "'", "\\", "1/2",
    "0x10", "1_000", "+5", "Infinity", "P1D", "00:00:00+05:30", "[", "nul", "12345678-1234-5678-1234-567812345678",
    # text that begins with U+FEFF (EF BB BF on the wire): an ordinary character as far as the library is concerned
    "\ufeff", "\ufeffhello", "\ufeff12", "\ufeff[1, 2]", "\ufeff{\"a\": 1}", "a\ufeffb",
    # numbers as Python's text parsers read them beyond ASCII: other decimal digits, Unicode white space
    "\u0661\u0662", "\uff11\uff12", "\u0967\u0968.\u096b", "\u00a012", "12\u2003", "\x8512", "\u0663.\u0665",
]


@dataclasses.dataclass
class Cfg:
    depth_max: int = 3
    size_max: int = 50
    big_prob: float = 0.03
    allow_bytes: bool = False
    int64: bool = False
    str_keys_only: bool = False
    unions: bool = True
    refs: bool = True
    wrappers: bool = True
    abstract: bool = True
    recursive: float = 0.35  # probability that a world gets a recursive group
    sets: bool = True
    paths_concrete: bool = True
    temporal: bool = True
    extreme_years: bool = True
    literal: bool = True

    @classmethod
    def for_tier(cls, tier: str, **kw) -> "Cfg":
        if tier == "thorough":
            base = dict(depth_max=5, size_max=2000)
        else:
            base = dict(depth_max=3, size_max=50)
        base.update(kw)
        return cls(**base)


# --------------------------------------------------------------------------------------
# world view: what a generated type may reference
# --------------------------------------------------------------------------------------


class View:
    """Referencable declarations, in definition order."""

    def __init__(self):
        self.items: list[dict] = []  # {"m","n","cat","hashable","rec","decl"}

    def add(self, mod: str, decl: dict, cat: str, hashable: bool = False, rec: bool = False, key_ok: bool = False):
        self.items.append(dict(m=mod, n=decl["n"], cat=cat, hashable=hashable, rec=rec, decl=decl, key_ok=key_ok))

    def pick(self, rng, pred=None):
        c = [i for i in self.items if pred is None or pred(i)]
        return rng.choice(c) if c else None

    def find(self, mod: str, name: str):
        for i in self.items:
            if i["m"] == mod and i["n"] == name:
                return i
        return None

    def lookup(self):
        return {(i["m"], i["n"]): i for i in self.items}


def ref(item) -> dict:
    return {"k": "ref", "m": item["m"], "n": item["n"]}


# --------------------------------------------------------------------------------------
# types
# --------------------------------------------------------------------------------------

SCALAR_TABLE = [
    (10, "int"), (5, "bool"), (6, "float"), (10, "str"), (4, "dec"), (3, "frac"), (4, "uuid"),
    (2, "ppath"), (1, "purepath"), (1, "path"), (2, "pat"), (4, "date"), (5, "dt"), (3, "time"),
    (4, "td"), (2, "none"),
]
HASHABLE_SCALARS = ["int", "bool", "float", "str", "dec", "frac", "uuid", "ppath", "date", "dt", "td"]
KEY_SCALARS = ["str", "int", "bool", "uuid", "date", "dec"]


def gen_scalar(rng, cfg: Cfg, *, hashable=False, key=False) -> dict:
    if key:
        if cfg.str_keys_only:
            return {"k": "str"}
        return {"k": core.weighted(rng, [(6, "str"), (3, "int"), (1, "bool"), (1, "uuid"), (1, "date"), (1, "dec")])}
    if hashable:
        return {"k": rng.choice(HASHABLE_SCALARS)}
    k = core.weighted(rng, SCALAR_TABLE)
    if not cfg.temporal and k in ("date", "dt", "time", "td"):
        k = "int"
    if cfg.allow_bytes and rng.random() < 0.05:
        k = "bytes"
    return {"k": k}


def gen_literal(rng) -> dict:
    pool = [1, 2, 3, 0, -1, "a", "b", "1", "x", "", True, False, None]
    n = rng.randint(1, 4)
    vals = []
    for _ in range(n):
        v = rng.choice(pool)
        # Literal de-duplicates by (type, value); keep declared members distinct by ==
        if not any(v == w and type(v) is type(w) for w in vals):
            vals.append(v)
    if rng.random() < 0.25:
        # a text and the value that text reads as, both declared: "1" is not 1
        text, val = rng.choice([("1", 1), ("true", True), ("null", None), ("2", 2), ("0", 0)])
        for m in (text, val) if rng.random() < 0.5 else (val, text):
            if not any(m == w and type(m) is type(w) for w in vals):
                vals.append(m)
    return {"k": "lit", "v": vals}


def gen_type(rng, view: View, cfg: Cfg, depth: int | None = None, *, hashable=False, key=False,
             union_ok=True, norec=False) -> dict:
    """A type AST from U.  ``hashable``: usable as a set element; ``key``: as a dict key."""
    if depth is None:
        depth = rng.randint(0, cfg.depth_max)
    if key:
        if not cfg.str_keys_only and cfg.refs and rng.random() < 0.12:
            it = view.pick(rng, lambda i: i["key_ok"])
            if it:
                return ref(it)
        return gen_scalar(rng, cfg, key=True)
    if hashable:
        r = rng.random()
        if depth > 0 and r < 0.15:
            n = rng.randint(1, 3)
            return {"k": "tuple", "a": [gen_type(rng, view, cfg, 0, hashable=True) for _ in range(n)]}
        if depth > 0 and r < 0.22:
            return {"k": "frozenset", "a": gen_type(rng, view, cfg, 0, hashable=True)}
        if cfg.refs and r < 0.35:
            it = view.pick(rng, lambda i: i["hashable"] and not (norec and i["rec"]))
            if it:
                return ref(it)
        return gen_scalar(rng, cfg, hashable=True)
    if depth <= 0:
        r = rng.random()
        if cfg.refs and r < 0.25:
            it = view.pick(rng, lambda i: not (norec and i["rec"]))
            if it:
                return ref(it)
        if cfg.literal and r > 0.94:
            return gen_literal(rng)
        return gen_scalar(rng, cfg)
    choice = core.weighted(rng, [
        (22, "scalar"), (16, "list"), (6 if cfg.sets else 0, "set"), (12, "dict"), (7, "tuple"),
        (6, "tuplevar"), (10 if (cfg.unions and union_ok) else 0, "union"),
        (14 if cfg.refs else 0, "ref"), (5 if cfg.abstract else 0, "abstract"), (2, "deque"),
    ])
    sp = "typing" if rng.random() < 0.3 else "builtin"
    d = depth - 1
    if choice == "scalar":
        return gen_type(rng, view, cfg, 0)
    if choice == "list":
        return {"k": "list", "sp": sp, "a": gen_type(rng, view, cfg, d, norec=norec)}
    if choice == "deque":
        return {"k": "deque", "sp": sp, "a": gen_type(rng, view, cfg, d, norec=norec)}
    if choice == "set":
        return {"k": rng.choice(["set", "frozenset"]), "sp": sp, "a": gen_type(rng, view, cfg, d, hashable=True, norec=norec)}
    if choice == "dict":
        return {"k": "dict", "sp": sp, "a": [gen_type(rng, view, cfg, 0, key=True), gen_type(rng, view, cfg, d, norec=norec)]}
    if choice == "tuple":
        n = rng.randint(1, 4)
        return {"k": "tuple", "sp": sp, "a": [gen_type(rng, view, cfg, d, norec=norec) for _ in range(n)]}
    if choice == "tuplevar":
        return {"k": "tuplevar", "sp": sp, "a": gen_type(rng, view, cfg, d, norec=norec)}
    if choice == "abstract":
        k = rng.choice(["Sequence", "MutableSequence", "Collection", "Iterable", "AbstractSet", "MutableSet", "Mapping", "MutableMapping"])
        asp = "typing" if rng.random() < 0.5 else "abc"
        if k in CONTAINERS2:
            return {"k": k, "sp": asp, "a": [gen_type(rng, view, cfg, 0, key=True), gen_type(rng, view, cfg, d, norec=norec)]}
        if k in SETLIKE:
            return {"k": k, "sp": asp, "a": gen_type(rng, view, cfg, d, hashable=True, norec=norec)}
        return {"k": k, "sp": asp, "a": gen_type(rng, view, cfg, d, norec=norec)}
    if choice == "union":
        return gen_union(rng, view, cfg, d, norec=norec)
    if choice == "ref":
        it = view.pick(rng, lambda i: not (norec and i["rec"]))
        if it:
            return ref(it)
        return gen_scalar(rng, cfg)
    raise AssertionError(choice)


def gen_union(rng, view, cfg, depth, norec=False) -> dict:
    r = rng.random()
    if r < 0.45:
        inner = gen_type(rng, view, cfg, depth, union_ok=False, norec=norec)
        if inner["k"] == "none":
            inner = {"k": "int"}
        sp = rng.choice(["optional", "pipe", "typing"])
        return {"k": "union", "sp": sp, "a": [inner, {"k": "none"}]}
    if r < 0.57 and cfg.temporal:
        # one family: the same text is offered to several temporal parsers in turn, and the
        # rightful member is often not the first
        members = [{"k": k} for k in rng.sample(["date", "dt", "time", "td"], rng.randint(2, 3))]
        if rng.random() < 0.3:
            members.append({"k": rng.choice(["str", "int", "none"])})
        return {"k": "union", "sp": rng.choice(["pipe", "typing"]), "a": members}
    n = rng.randint(2, 4)
    members = []
    seen = set()
    for _ in range(n):
        m = gen_type(rng, view, cfg, min(depth, 1), union_ok=False, norec=norec)
        kk = core.jdump(m)
        if kk in seen:
            continue
        seen.add(kk)
        members.append(m)
    if rng.random() < 0.3 and not any(m["k"] == "none" for m in members):
        members.insert(rng.randint(0, len(members)), {"k": "none"})
    if len(members) < 2:
        members.append({"k": "none"} if members[0]["k"] != "none" else {"k": "int"})
    sp = rng.choice(["pipe", "typing"])
    return {"k": "union", "sp": sp, "a": members}


def one_order_per_member_set(world: dict, extra_types: list) -> None:
    """Rewrite (in place) every union of the world and of ``extra_types`` so that unions with the same
    member set use one member order throughout the run.  For checks whose property is not about
    member order: two orders of one member set in one process is the recorded union-order-alias
    finding (C08/C12 own it), and would otherwise be re-found through every other property."""
    from .model import twalk

    first: dict[str, list] = {}

    def fix(t):
        for n in twalk(t):
            if n.get("k") == "union" and isinstance(n.get("a"), list):
                key = core.jdump(sorted(core.jdump(m) for m in n["a"]))
                if key in first:
                    n["a"] = [x for x in map(lambda j: __import__("json").loads(j), first[key])]
                else:
                    first[key] = [core.jdump(m) for m in n["a"]]

    for m in world.get("modules", ()):
        for d in m.get("decls", ()):
            if isinstance(d.get("t"), dict):
                fix(d["t"])
            for f in d.get("fields", ()):
                if isinstance(f.get("t"), dict):
                    fix(f["t"])
    for t in extra_types:
        fix(t)


# --------------------------------------------------------------------------------------
# worlds
# --------------------------------------------------------------------------------------


def _fields(rng, view, cfg, n, depth, *, hashable=False, norec=True, names=None):
    names = list(names or FIELD_NAMES)
    rng.shuffle(names)
    out = []
    for i in range(n):
        t = gen_type(rng, view, cfg, rng.randint(0, depth), hashable=hashable, norec=norec)
        out.append({"n": names[i], "t": t})
    return out


def _add_defaults(rng, fields):
    """Give trailing fields simple defaults (only where a literal default is valid)."""
    started = False
    for f in fields:
        k = f["t"]["k"]
        can = k in ("int", "str", "bool", "none") or (k == "union" and any(a["k"] == "none" for a in f["t"]["a"]))
        opt = k == "union" and any(a["k"] == "none" for a in f["t"]["a"])
        if not started and rng.random() < (0.25 if opt else 0.6):
            continue
        if can:
            started = True
            if k == "int":
                f["default"] = rng.choice([0, 7, -1])
            elif k == "str":
                f["default"] = rng.choice(["", "dflt"])
            elif k == "bool":
                f["default"] = rng.choice([True, False])
            else:
                f["default"] = None
                # an optional member whose default is not None: None is then a value like any other
                ks = [a["k"] for a in f["t"]["a"]] if k == "union" else []
                if rng.random() < 0.5:
                    if "int" in ks:
                        f["default"] = rng.choice([3, 0])
                    elif "str" in ks:
                        f["default"] = "dflt"
                    elif "bool" in ks:
                        f["default"] = True
        elif started:
            # a non-default field may not follow a default one: give it a factory if possible
            if k in ("list",):
                f["factory"] = "list"
            elif k in ("dict",):
                f["factory"] = "dict"
            else:
                # cannot default: stop defaults by moving on (dataclass would reject)
                started = False
                for g in fields:
                    g.pop("default", None)
                    g.pop("factory", None)
                return


def gen_enum(rng, name) -> dict:
    base = core.weighted(rng, [(4, "Enum"), (2, "IntEnum"), (2, "StrEnum"), (1, "intmix"), (1, "strmix")])
    n = rng.randint(1, 4)
    members = []
    if base in ("IntEnum", "intmix"):
        vals = rng.sample([0, 1, 2, 3, 10, -1, 255], n)
    elif base in ("StrEnum", "strmix"):
        vals = rng.sample(["red", "green", "a", "ab", "1", "null", "x y", "true", "[1]"], n)
    else:
        vals = rng.sample([1, 2, "one", "two", "1", 3.5, True, None, "null"], n)
        # Enum aliases (equal values) would make members indistinguishable: 1/True collide
        ded = []
        for v in vals:
            if not any(v == w for w in ded):
                ded.append(v)
        vals = ded
    for i, v in enumerate(vals):
        members.append([f"M{i}", v])
    if base in ("Enum", "StrEnum", "strmix") and len(members) >= 2 and rng.random() < 0.2:
        # values that are also member *names* (of other members): a value is looked up as a value
        k = len(members)
        for i in range(k):
            members[i][1] = f"M{(i + 1) % k}" if rng.random() < 0.7 else members[i][1]
        if len({core.jdump(m[1]) for m in members}) < k:
            for i in range(k):
                members[i][1] = f"M{(i + 1) % k}"
    return {"d": "enum", "n": name, "base": base, "members": members}


STRUCT_KINDS = [(6, "dataclass"), (2, "namedtuple"), (2, "typeddict"), (2, "plain"), (1, "slotsclass")]


def gen_struct(rng, view, cfg, name, *, depth=2, kind=None, hashable=False, future=False) -> dict:
    kind = kind or core.weighted(rng, STRUCT_KINDS)
    n = rng.randint(1, 4)
    fields = _fields(rng, view, cfg, n, depth, hashable=hashable)
    if kind != "typeddict" and rng.random() < 0.2:
        # an optional member whose default is not None comes last: None is then a value like any
        # other, and not the same as leaving the member out
        inner, dv = rng.choice([("int", 3), ("str", "dflt"), ("int", 0), ("bool", True)])
        fields.append({"n": "optd", "t": {"k": "union", "sp": rng.choice(["optional", "pipe", "typing"]), "a": [{"k": inner}, {"k": "none"}]}, "default": dv})
    d = {"d": kind, "n": name, "fields": fields}
    if kind == "dataclass":
        flags = {}
        if hashable or rng.random() < 0.25:
            flags["frozen"] = True
        if rng.random() < 0.25:
            flags["slots"] = True
        if rng.random() < 0.2:
            flags["kw_only"] = True
        d["flags"] = flags
        if rng.random() < 0.5:
            _add_defaults(rng, fields)
    elif kind in ("plain", "slotsclass"):
        if rng.random() < 0.6:
            d["sigonly"] = True
        if rng.random() < 0.3:
            _add_defaults(rng, fields)
            if any("factory" in f for f in fields):  # a plain signature has no factories
                for g in fields:
                    g.pop("default", None)
                    g.pop("factory", None)
    if kind == "namedtuple":
        if rng.random() < 0.4:
            _add_defaults(rng, fields)
            for f in fields:
                if "factory" in f:  # not valid for NamedTuple
                    for g in fields:
                        g.pop("default", None)
                        g.pop("factory", None)
                    break
    elif kind == "typeddict":
        # Under `from __future__ import annotations` the interpreter itself cannot see
        # Required/NotRequired (the class is created from strings): no markers there.
        if len(fields) >= 2 and rng.random() < 0.3:
            # mixed totality through inheritance: the first `split` keys come from a base class of one
            # totality, the rest from the class itself with the other (no markers needed, so this also
            # works under postponed evaluation); each field records whether it may be absent
            d["split"] = rng.randint(1, len(fields) - 1)
            d["base_total"] = rng.random() < 0.5
            for i, f in enumerate(fields):
                f["opt"] = not (d["base_total"] if i < d["split"] else not d["base_total"])
        elif rng.random() < 0.3:
            d["total"] = False
            for f in fields:
                if not future and rng.random() < 0.4:
                    f["req"] = True
        else:
            for f in fields[1:]:
                if not future and rng.random() < 0.35:
                    f["nr"] = True
    else:
        if rng.random() < 0.4:
            _add_defaults(rng, fields)
            for f in fields:
                if "factory" in f:
                    for g in fields:
                        g.pop("default", None)
                        g.pop("factory", None)
                    break
    return d


CYCLE_EDGES = ["optional", "list", "dict", "tuplevar", "pipe"]


def _edge(rng, target: dict, kind=None) -> dict:
    kind = kind or rng.choice(CYCLE_EDGES)
    if kind == "bare":
        # the member class itself, required: the cycle is closed through the other classes' edges
        return target
    if kind == "optional":
        return {"k": "union", "sp": "optional", "a": [target, {"k": "none"}]}
    if kind == "pipe":
        return {"k": "union", "sp": "pipe", "a": [target, {"k": "none"}]}
    if kind == "list":
        return {"k": "list", "a": target}
    if kind == "dict":
        return {"k": "dict", "a": [{"k": "str"}, target]}
    return {"k": "tuplevar", "a": target}


def gen_recursive_group(rng, view, cfg, mod: str, base_index: int) -> list[dict]:
    n = core.weighted(rng, [(5, 1), (3, 2), (1, 3)])
    names = [f"VwR{base_index + i}" for i in range(n)]
    decls = []
    # in a cycle over several classes some hops may be plain member classes ("X | None in a field of a
    # member class"): at least one edge of the cycle stays one that a value can end at
    bare = [n >= 2 and rng.random() < 0.35 for _ in range(n)]
    if all(bare):
        bare[rng.randrange(n)] = False
    shared_more = (rng.choice(names), rng.choice(["list", "dict", "tuplevar", "optional"])) if n >= 2 and rng.random() < 0.3 else None
    for i, nm in enumerate(names):
        nxt = {"k": "ref", "m": mod, "n": names[(i + 1) % n]}
        fields = [{"n": "v", "t": {"k": rng.choice(["int", "str", "int", "date", "uuid"])}}]
        edge = _edge(rng, nxt, "bare" if bare[i] else None)
        f = {"n": "nxt", "t": edge}
        fields.append(f)
        if shared_more is not None:
            # every class of the group names the same edge alike (A.more: list[B], B.more: list[B])
            fields.append({"n": "more", "t": _edge(rng, {"k": "ref", "m": mod, "n": shared_more[0]}, shared_more[1])})
        elif rng.random() < 0.3:
            other = {"k": "ref", "m": mod, "n": rng.choice(names)}
            fields.append({"n": "more", "t": _edge(rng, other)})
        kind = core.weighted(rng, [(8, "dataclass"), (1, "plain"), (1, "typeddict"), (1, "namedtuple")])
        for f in fields[1:]:
            ek = f["t"]["k"]
            if kind in ("dataclass",):
                if ek == "union":
                    f["default"] = None
                elif ek == "list":
                    f["factory"] = "list"
                elif ek == "dict":
                    f["factory"] = "dict"
                elif ek == "tuplevar":
                    f["default"] = ()
            elif kind in ("plain", "namedtuple"):
                if ek == "union":
                    f["default"] = None
                elif ek == "tuplevar":
                    f["default"] = ()
                else:
                    # required positional after defaults is illegal: drop all defaults
                    for g in fields:
                        g.pop("default", None)
                    break
        d = {"d": kind, "n": nm, "fields": fields}
        if kind == "dataclass":
            d["flags"] = {"slots": True} if rng.random() < 0.2 else {}
        decls.append(d)
    return decls


def gen_world(rng, cfg: Cfg, *, force_recursive=False, nmods=None) -> tuple[dict, View]:
    nm = nmods or core.weighted(rng, [(5, 1), (4, 2), (1, 3)])
    view = View()
    world = {"modules": []}
    counters = {"E": 0, "D": 0, "W": 0, "A": 0, "R": 0}
    for mi in range(nm):
        mname = f"vw{mi}"
        mod = {"name": mname, "future": rng.random() < 0.5, "decls": []}
        world["modules"].append(mod)

        def fresh(prefix, mod=mod, mi=mi):
            # same-named classes across modules, on purpose, some of the time
            if mi > 0 and prefix in ("D", "E") and rng.random() < 0.35:
                prev = [d["n"] for d in world["modules"][0]["decls"] if d["n"].startswith("Vw" + prefix)]
                prev = [p for p in prev if not any(d["n"] == p for d in mod["decls"])]
                if prev:
                    return rng.choice(prev)
            counters[prefix] += 1
            return f"Vw{prefix}{counters[prefix] - 1}"

        for _ in range(rng.randint(1, 2)):
            e = gen_enum(rng, fresh("E"))
            mod["decls"].append(e)
            key_ok = e["base"] in ("StrEnum", "strmix") or all(isinstance(v, str) for _, v in e["members"])
            view.add(mname, e, "enum", hashable=True, key_ok=key_ok)
        # one hashable struct (frozen dataclass / namedtuple over hashable fields)
        if rng.random() < 0.6:
            kind = rng.choice(["dataclass", "namedtuple"])
            s = gen_struct(rng, view, cfg, fresh("D"), depth=1, kind=kind, hashable=True)
            mod["decls"].append(s)
            view.add(mname, s, "struct", hashable=True)
        for _ in range(rng.randint(1, 3)):
            s = gen_struct(rng, view, cfg, fresh("D"), depth=2, future=mod["future"])
            mod["decls"].append(s)
            view.add(mname, s, "struct")
        bases = [d for d in mod["decls"] if d["d"] == "dataclass" and not d.get("base")]
        if bases and rng.random() < 0.4:
            # single inheritance: a dataclass that adds defaulted fields to one declared earlier in the
            # module (the class body holds only its own fields; `fields` lists all of them, inherited first)
            b = rng.choice(bases)
            taken = {f["n"] for f in b["fields"]}
            own = []
            # (every other subclass adds no field of its own: all its members are inherited)
            for nm_ in [n_ for n_ in FIELD_NAMES + ["extra", "note"] if n_ not in taken][: rng.choice([0, 0, 1, 2])]:
                tk = rng.choice(["int", "str", "bool", "optint"])
                if tk == "optint":
                    own.append({"n": nm_, "t": {"k": "union", "sp": "optional", "a": [{"k": "int"}, {"k": "none"}]}, "default": None})
                else:
                    own.append({"n": nm_, "t": {"k": tk}, "default": {"int": 3, "str": "own", "bool": True}[tk]})
            flags = {}
            if b.get("flags", {}).get("frozen"):
                flags["frozen"] = True
            if b.get("flags", {}).get("kw_only") and rng.random() < 0.5:
                flags["kw_only"] = True
            s = {"d": "dataclass", "n": fresh("D"), "fields": copy.deepcopy(b["fields"]) + own, "own_from": len(b["fields"]), "base": b["n"], "flags": flags}
            if s["n"] != b["n"]:
                mod["decls"].append(s)
                view.add(mname, s, "struct")
        if cfg.wrappers:
            for _ in range(rng.randint(0, 2)):
                counters["W"] += 1
                under = gen_type(rng, view, cfg, rng.randint(0, 1), union_ok=False, norec=True)
                if under["k"] in ("none", "lit", "union") or under["k"] not in ("int", "str", "float", "dec", "uuid", "date", "dt", "list", "dict", "ref", "td", "bool"):
                    under = {"k": rng.choice(["int", "str", "uuid", "dt"])}
                if under["k"] == "bool":
                    under = {"k": "int"}  # NewType of bool is not subclassable
                if under["k"] == "ref":
                    it = view.find(under["m"], under["n"])
                    if it and it["cat"] in ("alias",):
                        under = {"k": "int"}
                d = {"d": "newtype", "n": f"VwW{counters['W'] - 1}", "t": under}
                mod["decls"].append(d)
                hashable = under["k"] in HASHABLE_SCALARS
                view.add(mname, d, "newtype", hashable=hashable, key_ok=under["k"] in ("str", "int"))
            for _ in range(rng.randint(0, 2)):
                counters["A"] += 1
                under = gen_type(rng, view, cfg, rng.randint(0, 2), norec=True)
                d = {"d": "alias", "n": f"VwA{counters['A'] - 1}", "t": under}
                r = rng.random()
                if r < 0.3:
                    d["string"] = True
                elif r < 0.5:
                    d["stmt"] = True
                mod["decls"].append(d)
                view.add(mname, d, "alias")
        if force_recursive and mi == 0 or rng.random() < cfg.recursive:
            grp = gen_recursive_group(rng, view, cfg, mname, counters["R"])
            counters["R"] += len(grp)
            for d in grp:
                mod["decls"].append(d)
            for d in grp:
                view.add(mname, d, "struct", rec=True)
    return world, view


# --------------------------------------------------------------------------------------
# values
# --------------------------------------------------------------------------------------


def gen_int(rng, cfg) -> int:
    r = rng.random()
    if r < 0.35:
        return rng.choice([0, 1, -1, 2, 7, 10, 255, -128])
    if r < 0.55:
        return rng.choice([2**31, 2**31 - 1, -(2**31), 2**63 - 1, -(2**63), 2**53 + 1])
    if r < 0.65 and not cfg.int64:
        return rng.choice([2**63, 2**64, 10**30, -(10**30), 2**100 + 1])
    if r < 0.85:
        return rng.randint(-10**6, 10**6)
    return rng.randint(-(2**63), 2**63 - 1)


def gen_float(rng) -> str:
    r = rng.random()
    if r < 0.4:
        return rng.choice(["0.0", "-0.0", "1.5", "-2.25", "5e-324", "1e308", "0.30000000000000004", "1e-07", "123456789.125", "1e+16", "2.2250738585072014e-308"])
    if r < 0.7:
        return repr(rng.uniform(-1e6, 1e6))
    return repr(rng.uniform(-1, 1) * 10 ** rng.randint(-300, 300))


def gen_str(rng) -> str:
    r = rng.random()
    if r < 0.45:
        return rng.choice(LOOKALIKE_STRS)
    n = rng.randint(0, 12)
    alphabet = "abcxyz019 _-.,:/[]{}\"'é中\U0001f600\t"
    return "".join(rng.choice(alphabet) for _ in range(n))


def gen_offset(rng) -> int:
    r = rng.random()
    if r < 0.3:
        return 0
    if r < 0.6:
        return rng.choice([330, -300, 60, -480, 765, 825, 1439, -1439, 345, -210, 1, -1])
    return rng.randint(-1439, 1439)


def gen_date(rng, cfg) -> list:
    r = rng.random()
    if r < 0.25:
        return rng.choice([[1970, 1, 1], [1969, 12, 31], [2000, 2, 29], [2024, 2, 29], [1999, 12, 31], [2038, 1, 19], [2100, 1, 1]])
    if r < 0.35 and cfg.extreme_years:
        return rng.choice([[1, 1, 1], [9999, 12, 31], [1, 1, 2], [9999, 12, 30], [100, 3, 1], [999, 12, 31]])
    y = rng.randint(1900, 2200)
    m = rng.randint(1, 12)
    d = rng.randint(1, 28)
    return [y, m, d]


def gen_scalar_value(rng, k: str, cfg: Cfg):
    if k == "int":
        return gen_int(rng, cfg)
    if k == "bool":
        return rng.random() < 0.5
    if k == "float":
        return {"$f": gen_float(rng)}
    if k == "str":
        return gen_str(rng)
    if k == "bytes":
        return {"$b": gen_str(rng).encode("utf-8", "surrogatepass").hex()}
    if k == "bytearray":
        return {"$ba": gen_str(rng).encode("utf-8", "surrogatepass").hex()}
    if k == "dec":
        return {"$dec": rng.choice(["0", "-0", "1.10", "1E+400", "123.456", "1E-7", "-5", "0.1", "1.0", "1.00", "1E+2", "100", "9999999999999999999999.000000001"])
                if rng.random() < 0.6 else str(rng.randint(-10**9, 10**9)) + "." + str(rng.randint(0, 999))}
    if k == "frac":
        return {"$fr": [rng.randint(-1000, 1000), rng.randint(1, 1000)]}
    if k == "uuid":
        return {"$uuid": "%032x" % rng.getrandbits(128)} if rng.random() < 0.8 else {"$uuid": rng.choice(["0" * 32, "f" * 32, "00000000000000000000000000000001"])}
    if k in ("ppath", "purepath", "path"):
        cls = {"ppath": "PurePosixPath", "purepath": "PurePath", "path": "Path"}[k]
        return {"$path": [cls, rng.choice(["a/b", "/abs/x", ".", "a", "rel/../x", "/", "dir/file.txt", "x y/z", "1", "null", "a.b",
                                            "donn\u00e9es/caf\u00e9.txt", "/srv/\u65e5\u672c/x", "na\u00efve", "~", "~/x", "~/.config/app.toml"])]}
    if k == "pat":
        return {"$re": rng.choice(["a+", "^x$", "[0-9]{2}", "", "\\d+", "(a|b)*", ".", "1", "null"])}
    if k == "date":
        return {"$d": gen_date(rng, cfg)}
    if k == "dt":
        y, m, d = gen_date(rng, cfg)
        off = gen_offset(rng)
        if y in (1, 9999):
            off = 0  # keep the instant representable in UTC
        us = rng.choice([0, 0, 1, 999999, 500000, rng.randint(0, 999999)])
        return {"$dt": [y, m, d, rng.randint(0, 23), rng.randint(0, 59), rng.randint(0, 59), us, off]}
    if k == "time":
        us = rng.choice([0, 0, 1, 999999, rng.randint(0, 999999)])
        return {"$t": [rng.randint(0, 23), rng.randint(0, 59), rng.randint(0, 59), us, gen_offset(rng)]}
    if k == "td":
        r = rng.random()
        if r < 0.4:
            return {"$td": rng.choice([[0, 0, 0], [7, 0, 0], [14, 0, 0], [8, 0, 0], [0, 59, 999999], [-1, 0, 0], [-1, 86399, 999999], [1, 0, 0], [0, 3600, 0], [0, 1, 0], [0, 0, 1], [999999999, 86399, 999999], [-999999999, 0, 0], [365, 0, 0], [0, 86399, 0], [6, 86399, 999999]])}
        return {"$td": [rng.randint(-1000, 1000), rng.randint(0, 86399), rng.choice([0, 0, rng.randint(0, 999999)])]}
    if k == "none":
        return None
    if k in ("any", "object"):
        return rng.choice([1, "x", None, {"$list": [1, 2]}])
    raise ValueError(k)


def _size(rng, cfg, budget):
    if budget <= 0:
        return 0
    r = rng.random()
    if r < 0.2:
        return 0
    if r < 0.45:
        return 1
    if r < cfg.big_prob + 0.45:
        # "large" containers only at the outermost level of a value: nested large containers
        # multiply (2000^3 nodes) without exploring anything new
        if budget >= 3:
            return rng.randint(cfg.size_max // 2, cfg.size_max)
        return rng.randint(5, 12)
    return rng.randint(2, 5)


def gen_value(rng, t: dict, view_lookup: dict, cfg: Cfg, budget: int = 3):
    """A value AST valid for type AST ``t`` (see gen_pair for the wire form too)."""
    return gen_pair(rng, t, view_lookup, cfg, budget)[0]


def scalar_wire(k: str, v):
    """Canonical wire form (DESIGN §3.1) of a scalar value AST, computed with the
    standard library only."""
    import datetime
    import decimal
    import fractions
    import uuid

    if v is None or isinstance(v, (bool, int, str)):
        return v
    if "$f" in v:
        return v
    if "$b" in v or "$ba" in v:
        return v
    if "$dec" in v:
        return str(decimal.Decimal(v["$dec"]))
    if "$fr" in v:
        return str(fractions.Fraction(*v["$fr"]))
    if "$uuid" in v:
        return str(uuid.UUID(hex=v["$uuid"]))
    if "$path" in v:
        import pathlib

        return str(getattr(pathlib, "PurePosixPath")(v["$path"][1]))
    if "$re" in v:
        return v["$re"]
    if "$d" in v:
        return datetime.date(*v["$d"]).isoformat()
    if "$dt" in v:
        y, m, d, H, M, S, us, off = v["$dt"][:8]
        tz = None if off is None else datetime.timezone(datetime.timedelta(minutes=off))
        return datetime.datetime(y, m, d, H, M, S, us, tzinfo=tz).isoformat()
    if "$t" in v:
        H, M, S, us, off = v["$t"][:5]
        tz = None if off is None else datetime.timezone(datetime.timedelta(minutes=off))
        return datetime.time(H, M, S, us, tzinfo=tz).isoformat()
    if "$td" in v:
        return td_iso(*v["$td"])
    return v


def td_iso(days: int, seconds: int, micros: int) -> str:
    """Reference ISO-8601 duration text for a timedelta (sign-prefixed for negatives)."""
    total = (days * 86400 + seconds) * 1_000_000 + micros
    sign = "-" if total < 0 else ""
    total = abs(total)
    us = total % 1_000_000
    secs = total // 1_000_000
    d, rem = divmod(secs, 86400)
    h, rem = divmod(rem, 3600)
    m, s = divmod(rem, 60)
    date = f"{d}D" if d else ""
    time_ = (f"{h}H" if h else "") + (f"{m}M" if m else "")
    if us:
        time_ += f"{s}.{us:06d}S"
    elif s:
        time_ += f"{s}S"
    if not date and not time_:
        return "PT0S"
    return f"{sign}P{date}" + (f"T{time_}" if time_ else "")


def gen_pair(rng, t: dict, view_lookup: dict, cfg: Cfg, budget: int = 3, trace: list | None = None):
    """(value AST valid for ``t``, value AST of its canonical wire form).  ``budget``
    bounds recursion through recursive classes and nesting of non-empty containers.
    ``trace`` (optional) receives one record per union position: the union, the member the
    value inhabits and the wire form of that part."""
    k = t["k"]
    if k in ("final", "classvar"):
        return gen_pair(rng, t["a"], view_lookup, cfg, budget, trace)
    if k == "lit":
        v = rng.choice(t["v"])
        return v, v
    if k == "ref":
        it = view_lookup[(t["m"], t["n"])]
        d = it["decl"]
        cat = d["d"]
        if cat == "enum":
            mem = rng.choice(d["members"])
            wv = mem[1]
            if isinstance(wv, float):
                wv = {"$f": repr(wv)}
            return {"$enum": [f"{t['m']}.{t['n']}", mem[0]]}, wv
        if cat in ("newtype", "alias"):
            return gen_pair(rng, d["t"], view_lookup, cfg, budget, trace)
        fields = {}
        wire = []
        b2 = budget - 1 if it.get("rec") else budget
        for f in d["fields"]:
            if cat == "typeddict":
                optional = f["opt"] if "opt" in f else (f.get("nr") or (d.get("total", True) is False and not f.get("req")))
                if optional and rng.random() < 0.5:
                    continue
            fv, fw = gen_pair(rng, f["t"], view_lookup, cfg, b2, trace)
            fields[f["n"]] = fv
            wire.append([f["n"], fw])
        if cat == "typeddict":
            return {"$dict": [[n, v] for n, v in fields.items()]}, {"$dict": wire}
        if cat == "namedtuple":
            return {"$nt": f"{t['m']}.{t['n']}", "f": fields}, {"$dict": wire}
        return {"$obj": f"{t['m']}.{t['n']}", "f": fields}, {"$dict": wire}
    if k == "union":
        members = t["a"]
        if budget <= 0:
            for m in members:
                if m["k"] == "none":
                    if trace is not None:
                        trace.append({"u": t, "m": m, "v": None, "w": None})
                    return None, None
        m = rng.choice(members)
        pv, pw = gen_pair(rng, m, view_lookup, cfg, budget, trace)
        if trace is not None:
            trace.append({"u": t, "m": m, "v": pv, "w": pw})
        return pv, pw
    if k in CONTAINERS1 or k == "tuplevar":
        n = _size(rng, cfg, budget)
        pairs = [gen_pair(rng, t["a"], view_lookup, cfg, budget - 1, trace) for _ in range(n)]
        if k in SETLIKE:
            ded, seen = [], set()
            for e in pairs:
                kk = _value_eq_key(e[0])
                if kk not in seen:
                    seen.add(kk)
                    ded.append(e)
            return {"$frozenset" if k == "frozenset" else "$set": [e[0] for e in ded]}, {"$list": [e[1] for e in ded]}
        elems = [e[0] for e in pairs]
        wire = {"$list": [e[1] for e in pairs]}
        if k == "deque":
            return {"$deque": elems}, wire
        if k == "tuplevar":
            return {"$tuple": elems}, wire
        return {"$list": elems}, wire
    if k in CONTAINERS2:
        n = _size(rng, cfg, budget)
        items, witems, seen = [], [], set()
        for _ in range(n):
            kv, kw = gen_pair(rng, t["a"][0], view_lookup, cfg, budget - 1, trace)
            kk = _value_eq_key(kv)
            if kk in seen:
                continue
            seen.add(kk)
            vv, vw = gen_pair(rng, t["a"][1], view_lookup, cfg, budget - 1, trace)
            items.append([kv, vv])
            witems.append([kw, vw])
        return {"$dict": items}, {"$dict": witems}
    if k == "tuple":
        pairs = [gen_pair(rng, a, view_lookup, cfg, budget - 1, trace) for a in t["a"]]
        return {"$tuple": [p[0] for p in pairs]}, {"$list": [p[1] for p in pairs]}
    v = gen_scalar_value(rng, k, cfg)
    return v, scalar_wire(k, v)


def wire_to_json(w):
    """Plain-Python JSON data of a wire value AST (for json.dumps text carriers);
    raises TypeError for wire forms that JSON cannot carry (bytes)."""
    if w is None or isinstance(w, (bool, int, str)):
        return w
    if isinstance(w, dict):
        if "$f" in w:
            return float(w["$f"])
        if "$list" in w:
            return [wire_to_json(x) for x in w["$list"]]
        if "$dict" in w:
            out = {}
            for k, v in w["$dict"]:
                kj = wire_to_json(k)
                if isinstance(kj, bool):
                    kj = "true" if kj else "false"
                elif kj is None:
                    kj = "null"
                elif not isinstance(kj, str):
                    kj = str(kj)
                out[kj] = wire_to_json(v)
            return out
    raise TypeError("not JSON-compatible")


def _value_eq_key(v) -> str:
    """Key under which two value ASTs would be == / hash-equal in Python
    (1 == 1.0 == True, equal instants with different offsets, Decimal 1.0 == 1.00)."""
    if isinstance(v, bool):
        return f"n:{int(v)}"
    if isinstance(v, int):
        return f"n:{v}"
    if isinstance(v, dict):
        if "$f" in v:
            f = float(v["$f"])
            return f"n:{int(f)}" if f == int(f) and abs(f) < 1e300 else f"f:{f!r}"
        if "$dec" in v:
            import decimal

            d = decimal.Decimal(v["$dec"])
            try:
                if d == d.to_integral_value():
                    return f"n:{int(d)}"
            except Exception:
                pass
            return f"dec:{d.normalize()}"
        if "$fr" in v:
            import fractions

            fr = fractions.Fraction(*v["$fr"])
            return f"n:{fr.numerator}" if fr.denominator == 1 else f"fr:{fr}"
        if "$dt" in v:
            import datetime

            y, m, d, H, M, S, us, off = v["$dt"][:8]
            try:
                base = datetime.datetime(y, m, d, H, M, S, us) - datetime.timedelta(minutes=off or 0)
                return f"dt:{base.isoformat()}"
            except OverflowError:
                return "dt:" + core.jdump(v)
        if "$enum" in v:
            return "e:" + core.jdump(v)
    return core.jdump(v)


def root_types(view: View, rng, cfg: Cfg, n: int):
    """n type ASTs over a world, biased toward its declarations."""
    out = []
    for _ in range(n):
        if view.items and rng.random() < 0.5:
            t = ref(rng.choice(view.items))
            if rng.random() < 0.3:
                t = rng.choice([
                    {"k": "list", "a": t}, {"k": "dict", "a": [{"k": "str"}, t]},
                    {"k": "union", "sp": "optional", "a": [t, {"k": "none"}]}, {"k": "tuplevar", "a": t},
                ])
            out.append(t)
        else:
            out.append(gen_type(rng, view, cfg))
    return out
