"""Deterministic simulator for python-typelib (see /verif/DESIGN.md).

The package name deliberately does not contain the library's package name:
``frames.getcaller`` skips every frame whose file name contains it.
"""

ENGINE_VERSION = 1
